//! C16 Converters built from configuration layers are consistent or rejected.
//!
//! Correspondence: a stack of `UnitsFile` values (built directly as Rust values; TOML is only used for the corpus and
//! the shipped files) is sent to the Lean model as an S-expression (hash maps in the iteration order they really
//! have) and built with `ConverterBuilder`; the canonical dump of the resulting `Converter` (units through the public
//! API, index / best lists with thresholds / fractions from its `Debug` rendering) or the build error is compared.
//! Oracle (public API only): no panic; every key of every unit resolves to exactly that unit; no shared key; best
//! lists hold units of their own quantity in non-decreasing ratio order; an extend block changes the names, symbols
//! and aliases of the unit it addresses as its precedence says; the last `best` / `default_system` wins;
//! `Converter::default()` equals the converter built from units.toml.
use crate::ctx::Ctx;
use crate::rng::Rng;
use crate::util::{enc_text, guarded, panic_signature};
use cooklang::convert::units_file::{
    BestUnits, Extend, ExtendUnitEntry, Fractions, FractionsConfigHelper, FractionsConfigWrapper, Precedence, QuantityGroup, SIPrefix,
    UnitEntry, Units, SI,
};
use cooklang::convert::{Converter, ConverterBuilder, PhysicalQuantity, System, Unit, UnitsFile};
use std::collections::HashMap;
use std::sync::Arc;

const PQS: [PhysicalQuantity; 5] =
    [PhysicalQuantity::Volume, PhysicalQuantity::Mass, PhysicalQuantity::Length, PhysicalQuantity::Temperature, PhysicalQuantity::Time];
const SIP: [SIPrefix; 6] = [SIPrefix::Kilo, SIPrefix::Hecto, SIPrefix::Deca, SIPrefix::Deci, SIPrefix::Centi, SIPrefix::Milli];

fn pq_name(q: PhysicalQuantity) -> &'static str {
    match q {
        PhysicalQuantity::Volume => "volume",
        PhysicalQuantity::Mass => "mass",
        PhysicalQuantity::Length => "length",
        PhysicalQuantity::Temperature => "temperature",
        PhysicalQuantity::Time => "time",
    }
}
fn sys_name(s: System) -> &'static str { match s { System::Metric => "metric", System::Imperial => "imperial" } }
fn prec_name(p: Precedence) -> &'static str { match p { Precedence::Before => "before", Precedence::After => "after", Precedence::Override => "override" } }

// ---------------------------------------------------------------------------------------------------------------
// a reader for `{:?}` renderings (derive(Debug) structs, tuples, lists, maps, strings, numbers)
mod dbg {
    #[derive(Debug, Clone, PartialEq)]
    pub enum D {
        Str(String),
        Num(String),
        /// `Name`, `Name(a, b)` (also the anonymous tuple, name "")
        Tuple(String, Vec<D>),
        Struct(String, Vec<(String, D)>),
        List(Vec<D>),
        Map(Vec<(D, D)>),
    }
    pub struct P<'a> { s: &'a [u8], i: usize }
    impl<'a> P<'a> {
        pub fn new(s: &'a str) -> Self { P { s: s.as_bytes(), i: 0 } }
        fn ws(&mut self) { while self.i < self.s.len() && (self.s[self.i] == b' ' || self.s[self.i] == b'\n') { self.i += 1; } }
        fn peek(&mut self) -> Option<u8> { self.ws(); self.s.get(self.i).copied() }
        fn eat(&mut self, c: u8) -> bool { if self.peek() == Some(c) { self.i += 1; true } else { false } }
        fn ident(&mut self) -> String {
            let st = self.i;
            while self.i < self.s.len() && (self.s[self.i].is_ascii_alphanumeric() || self.s[self.i] == b'_') { self.i += 1; }
            String::from_utf8_lossy(&self.s[st..self.i]).into_owned()
        }
        fn string(&mut self) -> Option<D> {
            // after the opening quote
            let mut out = String::new();
            let text = std::str::from_utf8(&self.s[self.i..]).ok()?;
            let mut it = text.char_indices();
            while let Some((off, c)) = it.next() {
                match c {
                    '"' => { self.i += off + 1; return Some(D::Str(out)); }
                    '\\' => {
                        let (_, e) = it.next()?;
                        match e {
                            'n' => out.push('\n'), 'r' => out.push('\r'), 't' => out.push('\t'), '0' => out.push('\0'),
                            '\\' => out.push('\\'), '"' => out.push('"'), '\'' => out.push('\''),
                            'u' => {
                                let (_, b) = it.next()?; if b != '{' { return None; }
                                let mut hex = String::new();
                                loop { let (_, h) = it.next()?; if h == '}' { break; } hex.push(h); }
                                out.push(char::from_u32(u32::from_str_radix(&hex, 16).ok()?)?);
                            }
                            _ => return None,
                        }
                    }
                    c => out.push(c),
                }
            }
            None
        }
        fn seq(&mut self, close: u8) -> Option<Vec<D>> {
            let mut v = vec![];
            loop {
                if self.eat(close) { return Some(v); }
                v.push(self.value()?);
                if !self.eat(b',') { if self.eat(close) { return Some(v); } return None; }
            }
        }
        pub fn value(&mut self) -> Option<D> {
            let c = self.peek()?;
            match c {
                b'"' => { self.i += 1; self.string() }
                b'[' => { self.i += 1; Some(D::List(self.seq(b']')?)) }
                b'(' => { self.i += 1; Some(D::Tuple(String::new(), self.seq(b')')?)) }
                b'{' => {
                    self.i += 1;
                    let mut v = vec![];
                    loop {
                        if self.eat(b'}') { return Some(D::Map(v)); }
                        let k = self.value()?;
                        if !self.eat(b':') { return None; }
                        let val = self.value()?;
                        v.push((k, val));
                        if !self.eat(b',') { if self.eat(b'}') { return Some(D::Map(v)); } return None; }
                    }
                }
                b'-' | b'0'..=b'9' => {
                    let st = self.i; self.i += 1;
                    while self.i < self.s.len() && (self.s[self.i].is_ascii_alphanumeric() || matches!(self.s[self.i], b'.' | b'-' | b'+')) { self.i += 1; }
                    Some(D::Num(String::from_utf8_lossy(&self.s[st..self.i]).into_owned()))
                }
                c if c.is_ascii_alphabetic() || c == b'_' => {
                    let name = self.ident();
                    if name == "NaN" || name == "inf" { return Some(D::Num(name)); }
                    match self.peek() {
                        Some(b'(') => { self.i += 1; Some(D::Tuple(name, self.seq(b')')?)) }
                        Some(b'{') => {
                            self.i += 1;
                            let mut v = vec![];
                            loop {
                                if self.eat(b'}') { return Some(D::Struct(name, v)); }
                                self.ws();
                                let f = self.ident();
                                if f.is_empty() || !self.eat(b':') { return None; }
                                let val = self.value()?;
                                v.push((f, val));
                                if !self.eat(b',') { if self.eat(b'}') { return Some(D::Struct(name, v)); } return None; }
                            }
                        }
                        _ => Some(D::Tuple(name, vec![])),
                    }
                }
                _ => None,
            }
        }
        pub fn done(&mut self) -> bool { self.peek().is_none() }
    }
    pub fn parse(s: &str) -> Option<D> { let mut p = P::new(s); let v = p.value()?; if p.done() { Some(v) } else { None } }
    impl D {
        pub fn field(&self, name: &str) -> Option<&D> {
            match self { D::Struct(_, fs) => fs.iter().find(|(n, _)| n == name).map(|x| &x.1), _ => None }
        }
        pub fn name(&self) -> &str { match self { D::Tuple(n, _) | D::Struct(n, _) => n, _ => "" } }
        pub fn args(&self) -> &[D] { match self { D::Tuple(_, a) => a, D::List(a) => a, _ => &[] } }
        pub fn map(&self) -> &[(D, D)] { match self { D::Map(m) => m, _ => &[] } }
        pub fn str(&self) -> Option<&str> { match self { D::Str(s) => Some(s), _ => None } }
        pub fn num(&self) -> Option<&str> { match self { D::Num(s) => Some(s), _ => None } }
    }
}
use dbg::D;

// ---------------------------------------------------------------------------------------------------------------
// UnitsFile -> S-expression of the model (hash maps in their real iteration order)

fn sx_texts<S: AsRef<str>>(v: &[S]) -> String { format!("({})", v.iter().map(|s| enc_text(s.as_ref())).collect::<Vec<_>>().join(" ")) }
fn sx_opt<T>(v: &Option<T>, f: impl Fn(&T) -> String) -> String { match v { None => "_".into(), Some(x) => f(x) } }
fn sx_bits(x: f64) -> String { x.to_bits().to_string() }
fn sx_w(w: &FractionsConfigWrapper) -> String {
    match w {
        FractionsConfigWrapper::Toggle(b) => format!("(t {})", *b as u8),
        FractionsConfigWrapper::Custom(c) => format!("(c {} {} {} {})", sx_opt(&c.enabled, |b| (*b as u8).to_string()),
            sx_opt(&c.accuracy, |a| sx_bits(*a as f64)), sx_opt(&c.max_denominator, |d| d.to_string()), sx_opt(&c.max_whole, |d| d.to_string())),
    }
}
fn sx_ue(u: &UnitEntry) -> String {
    format!("({} {} {} {} {} {})", sx_texts(&u.names), sx_texts(&u.symbols), sx_texts(&u.aliases), sx_bits(u.ratio), sx_bits(u.difference), u.expand_si as u8)
}
fn sx_ues(v: &[UnitEntry]) -> String { format!("({})", v.iter().map(sx_ue).collect::<Vec<_>>().join(" ")) }

pub fn sx_file(f: &UnitsFile) -> String {
    let ds = sx_opt(&f.default_system, |s| sys_name(*s).to_string());
    let si = sx_opt(&f.si, |si| {
        fn pm<M: std::ops::Index<SIPrefix, Output = Vec<String>>>(m: &Option<M>) -> String {
            sx_opt(m, |m| format!("({})", SIP.iter().map(|p| sx_texts(&m[*p])).collect::<Vec<_>>().join(" ")))
        }
        format!("({} {} {})", pm(&si.prefixes), pm(&si.symbol_prefixes), prec_name(si.precedence))
    });
    let fr = sx_opt(&f.fractions, |fr| {
        let q = fr.quantity.iter().map(|(q, w)| format!("({} {})", pq_name(*q), sx_w(w))).collect::<Vec<_>>().join(" ");
        let u = fr.unit.iter().map(|(k, w)| format!("({} {})", enc_text(k), sx_w(w))).collect::<Vec<_>>().join(" ");
        format!("({} {} {} ({}) ({}))", sx_opt(&fr.all, sx_w), sx_opt(&fr.metric, sx_w), sx_opt(&fr.imperial, sx_w), q, u)
    });
    let ex = sx_opt(&f.extend, |ex| {
        let us = ex.units.iter().map(|(k, e)| format!("({} ({} {} {} {} {}))", enc_text(k), sx_opt(&e.ratio, |r| sx_bits(*r)), sx_opt(&e.difference, |r| sx_bits(*r)),
            sx_opt(&e.names, |v| sx_texts(v)), sx_opt(&e.symbols, |v| sx_texts(v)), sx_opt(&e.aliases, |v| sx_texts(v)))).collect::<Vec<_>>().join(" ");
        format!("({} ({}))", prec_name(ex.precedence), us)
    });
    let qs = f.quantity.iter().map(|g| {
        let best = sx_opt(&g.best, |b| match b {
            BestUnits::Unified(v) => format!("(u {})", sx_texts(v)),
            BestUnits::BySystem { metric, imperial } => format!("(s {} {})", sx_texts(metric), sx_texts(imperial)),
        });
        let units = sx_opt(&g.units, |u| match u {
            Units::Unified(v) => format!("(u {})", sx_ues(v)),
            Units::BySystem { metric, imperial, unspecified } => format!("(s {} {} {})", sx_ues(metric), sx_ues(imperial), sx_ues(unspecified)),
        });
        format!("({} {} {})", pq_name(g.quantity), best, units)
    }).collect::<Vec<_>>().join(" ");
    format!("({ds} {si} {fr} {ex} ({qs}))")
}

// ---------------------------------------------------------------------------------------------------------------
// canonical rendering of the implementation's result

fn r_f(x: f64) -> String { if x.is_nan() { "nan".into() } else { x.to_bits().to_string() } }
fn r_texts(v: &[Arc<str>]) -> String { if v.is_empty() { "~".into() } else { v.iter().map(|s| enc_text(s)).collect::<Vec<_>>().join("+") } }
fn r_unit(u: &Unit) -> String {
    format!("{}|{}|{}|{}|{}|{}|{}", r_texts(&u.names), r_texts(&u.symbols), r_texts(&u.aliases), r_f(u.ratio), r_f(u.difference),
        pq_name(u.physical_quantity), u.system.map(sys_name).unwrap_or("_"))
}
fn r_conv(d: &D) -> Option<String> {
    // BestConversions([(1.0, 3), ...])
    let l = d.args().first()?.args();
    if l.is_empty() { return Some("~".into()); }
    let mut out = vec![];
    for e in l { let a = e.args(); out.push(format!("{}@{}", r_f(a.first()?.num()?.parse::<f64>().ok()?), a.get(1)?.num()?)); }
    Some(out.join(","))
}
fn r_cfg(d: &D) -> Option<String> {
    let en = d.field("enabled")?.name() == "true";
    let acc = d.field("accuracy")?.num()?.parse::<f32>().ok()? as f64;
    Some(format!("{}.{}.{}.{}", en as u8, r_f(acc), d.field("max_denominator")?.num()?, d.field("max_whole")?.num()?))
}
fn r_opt_cfg(d: &D) -> Option<String> { if d.name() == "None" { Some("_".into()) } else { r_cfg(d.args().first()?) } }

/// The converter as the model prints it. The index, the quantity index, the best lists and the fraction tables are private:
/// they are read through the `Debug` rendering. A part whose rendering does not have the expected shape any more (a change of
/// the private representation) is printed as `?` and its letter is returned, so that the model is asked to leave it out too.
pub fn render_converter(c: &Converter) -> Result<(String, String), String> {
    let text = format!("{c:?}");
    let d = dbg::parse(&text).ok_or_else(|| format!("cannot read the Debug rendering of Converter: {}", &text[..text.len().min(200)]))?;
    let units = c.all_units().map(r_unit).collect::<Vec<_>>().join(";");
    let index = || -> Option<String> {
        let mut idx: Vec<(String, String)> = vec![];
        for (k, v) in d.field("unit_index")?.args().first()?.map() { idx.push((k.str()?.to_string(), v.num()?.to_string())); }
        idx.sort();
        Some(idx.iter().map(|(k, v)| format!("{}>{}", enc_text(k), v)).collect::<Vec<_>>().join(";"))
    };
    let qindex = || -> Option<String> {
        let qm = d.field("quantity_index")?.map();
        let mut qs = vec![];
        for q in PQS {
            let e = qm.iter().find(|(k, _)| k.name().eq_ignore_ascii_case(pq_name(q)))?;
            let ids: Vec<String> = e.1.args().iter().filter_map(|x| x.num().map(|s| s.to_string())).collect();
            qs.push(if ids.is_empty() { "~".to_string() } else { ids.join(",") });
        }
        Some(qs.join(";"))
    };
    let best = || -> Option<String> {
        let bm = d.field("best")?.map();
        let mut bs = vec![];
        for q in PQS {
            let e = &bm.iter().find(|(k, _)| k.name().eq_ignore_ascii_case(pq_name(q)))?.1;
            bs.push(match e.name() {
                "Unified" => format!("U:{}", r_conv(e.args().first()?)?),
                "BySystem" => format!("S:{}/{}", r_conv(e.field("metric")?)?, r_conv(e.field("imperial")?)?),
                _ => return None,
            });
        }
        Some(bs.join(";"))
    };
    let fractions = || -> Option<String> {
        let fr = d.field("fractions")?;
        let fq = fr.field("quantity")?.map();
        let mut fqs = vec![];
        for q in PQS {
            fqs.push(match fq.iter().find(|(k, _)| k.name().eq_ignore_ascii_case(pq_name(q))) { None => "_".to_string(), Some(e) => r_cfg(&e.1)? });
        }
        let mut fu: Vec<(u64, String)> = vec![];
        for (k, v) in fr.field("unit")?.map() { fu.push((k.num()?.parse().ok()?, r_cfg(v)?)); }
        fu.sort();
        let fus = if fu.is_empty() { "~".to_string() } else { fu.iter().map(|(k, v)| format!("{k}={v}")).collect::<Vec<_>>().join(",") };
        Some(format!("{}|{}|{}|{}|{}", r_opt_cfg(fr.field("all")?)?, r_opt_cfg(fr.field("metric")?)?, r_opt_cfg(fr.field("imperial")?)?, fqs.join(","), fus))
    };
    let mut skipped = String::new();
    let mut part = |letter: char, v: Option<String>| -> String { match v { Some(s) => s, None => { skipped.push(letter); "?".to_string() } } };
    let (i, q, b, f) = (part('I', index()), part('Q', qindex()), part('B', best()), part('F', fractions()));
    Ok((format!("ok U={} I={} Q={} B={} F={} D={}", units, i, q, b, f, sys_name(c.default_system())), skipped))
}

/// build error -> the model's error line (through the Debug rendering, so that this file compiles with and without
/// the variant added by the repair)
fn render_error(e: &cooklang::convert::ConverterBuilderError) -> String {
    let text = format!("{e:?}");
    let Some(d) = dbg::parse(&text) else { return format!("err unreadable {text}") };
    let key = |f: &str| d.field(f).and_then(|x| x.str()).map(enc_text).unwrap_or_else(|| "?".into());
    let pq = |f: &str| d.field(f).map(|x| x.name().to_ascii_lowercase()).unwrap_or_else(|| "?".into());
    match d.name() {
        "DuplicateUnit" => format!("err duplicateUnit {}", key("name")),
        "DuplicateExtendUnit" => format!("err duplicateExtendUnit {}", key("key")),
        "InvalidExtendExpanded" => format!("err invalidExtendExpanded {}", key("key")),
        "UnknownUnit" => format!("err unknownUnit {}", d.args().first().and_then(|u| u.args().first()).and_then(|s| s.str()).map(enc_text).unwrap_or_else(|| "?".into())),
        "EmptyUnit" => "err emptyUnit".into(),
        "EmptyUnitKey" => "err emptyUnitKey".into(),
        "EmptyBest" => format!("err emptyBest {} {}", pq("quantity"),
            match d.field("reason").and_then(|x| x.str()) { Some("empty list of units") => "empty-list", Some("no best units given") => "none-given", _ => "?" }),
        "EmptySIPrefixes" => "err emptySIPrefixes".into(),
        "BestUnitQuantity" => format!("err bestUnitQuantity {} {} {}", key("unit"), pq("quantity"), pq("unit_quantity")),
        other => format!("err other:{other}"),
    }
}

// ---------------------------------------------------------------------------------------------------------------
// running the implementation

pub enum Built { Ok(Converter), Err(String), Panic(String) }

/// layers added in order to a new builder, the first error ends the build, then `finish`
pub fn build_impl(files: Vec<UnitsFile>) -> Built {
    let r = guarded(move || {
        let mut b = ConverterBuilder::new();
        for f in files {
            if let Err(e) = b.add_units_file(f) { return Err(render_error(&e)); }
        }
        b.finish().map_err(|e| render_error(&e))
    });
    match r { Ok(Ok(c)) => Built::Ok(c), Ok(Err(e)) => Built::Err(e), Err(p) => Built::Panic(p) }
}

fn unit_pos(c: &Converter, u: &Arc<Unit>) -> Option<usize> { c.all_units().position(|x| std::ptr::eq(x, Arc::as_ptr(u))) }

fn all_keys(u: &Unit) -> impl Iterator<Item = &Arc<str>> { u.names.iter().chain(u.symbols.iter()).chain(u.aliases.iter()) }

fn join_expected(old: &[Arc<str>], new: &Option<Vec<Arc<str>>>, p: Precedence) -> Vec<Arc<str>> {
    match new {
        None => old.to_vec(),
        Some(n) => match p {
            Precedence::Before => n.iter().chain(old.iter()).cloned().collect(),
            Precedence::After => old.iter().chain(n.iter()).cloned().collect(),
            Precedence::Override => n.clone(),
        },
    }
}

fn premise(files: &[UnitsFile]) -> bool {
    let okr = |r: f64| r.is_finite() && r > 0.0;
    let okd = |d: f64| d.is_finite();
    let entries = |v: &Vec<UnitEntry>| v.iter().all(|u| okr(u.ratio) && okd(u.difference));
    files.iter().all(|f| {
        f.quantity.iter().all(|g| match &g.units {
            None => true,
            Some(Units::Unified(v)) => entries(v),
            Some(Units::BySystem { metric, imperial, unspecified }) => entries(metric) && entries(imperial) && entries(unspecified),
        }) && f.extend.as_ref().map_or(true, |e| e.units.values().all(|e| e.ratio.map_or(true, okr) && e.difference.map_or(true, okd)))
            && f.fractions.as_ref().map_or(true, |fr| {
                let okw = |w: &FractionsConfigWrapper| match w { FractionsConfigWrapper::Custom(c) => c.accuracy.map_or(true, |a| a.is_finite()), _ => true };
                fr.all.iter().chain(fr.metric.iter()).chain(fr.imperial.iter()).chain(fr.quantity.values()).chain(fr.unit.values()).all(okw)
            })
    })
}

fn count_declared(files: &[UnitsFile]) -> usize {
    files.iter().map(|f| f.quantity.iter().map(|g| match &g.units {
        None => 0,
        Some(Units::Unified(v)) => v.len(),
        Some(Units::BySystem { metric, imperial, unspecified }) => metric.len() + imperial.len() + unspecified.len(),
    }).sum::<usize>()).sum()
}

/// the declared unit entries of a stack, in the order the builder adds them
fn declared_entries(files: &[UnitsFile]) -> Vec<&UnitEntry> {
    let mut out = vec![];
    for f in files {
        for g in &f.quantity {
            match &g.units {
                None => {}
                Some(Units::Unified(v)) => out.extend(v.iter()),
                Some(Units::BySystem { metric, imperial, unspecified }) => { out.extend(metric.iter()); out.extend(imperial.iter()); out.extend(unspecified.iter()); }
            }
        }
    }
    out
}

/// The SI tables after all layers, by the property's reading of precedence: a later table goes before / after /
/// replaces the earlier one (written independently of the model).
fn joined_prefixes(files: &[UnitsFile], symbols: bool) -> Option<[Vec<String>; 6]> {
    let mut acc: Option<[Vec<String>; 6]> = None;
    for f in files {
        let Some(si) = &f.si else { continue };
        let t = if symbols { &si.symbol_prefixes } else { &si.prefixes };
        let new: Option<[Vec<String>; 6]> = t.as_ref().map(|m| std::array::from_fn(|i| m[SIP[i]].clone()));
        acc = match (acc, new) {
            (None, x) => x,
            (a, None) => a,
            (Some(a), Some(b)) => Some(std::array::from_fn(|i| match si.precedence {
                Precedence::Before => b[i].iter().chain(a[i].iter()).cloned().collect(),
                Precedence::After => a[i].iter().chain(b[i].iter()).cloned().collect(),
                Precedence::Override => b[i].clone(),
            })),
        };
    }
    acc
}

/// "every … SI-prefixed form resolves to exactly its unit": the 6 units generated for a unit marked `expand_si`
/// carry exactly the prefixed forms of that unit's names and symbols (prefix tables joined by precedence), the scaled
/// ratio, the same quantity and system — and each form resolves to it.
fn oracle_si_forms(ctx: &mut Ctx, desc: &str, files: &[UnitsFile], c: &Converter) {
    let entries = declared_entries(files);
    let units: Vec<&Unit> = c.all_units().collect();
    let bases: Vec<usize> = (0..entries.len()).filter(|i| entries[*i].expand_si).collect();
    if bases.is_empty() { return; }
    let mut fail = |ctx: &mut Ctx, m: String, sig: &str| ctx.oracle_fail(desc.to_string(), m, format!("c16:{sig}"));
    if units.len() != entries.len() + 6 * bases.len() {
        fail(ctx, format!("{} declared units, {} of them SI-expanded, but the converter has {} units", entries.len(), bases.len(), units.len()), "si-unit-count");
        return;
    }
    let (Some(pre), Some(sym)) = (joined_prefixes(files, false), joined_prefixes(files, true)) else {
        fail(ctx, "SI expansion succeeded although no layer gives both prefix tables".into(), "si-without-tables");
        return;
    };
    ctx.count("si-forms:checked-stacks");
    let scale = [1e3, 1e2, 1e1, 1e-1, 1e-2, 1e-3];
    for (k, &bi) in bases.iter().enumerate() {
        let base = units[bi];
        for j in 0..6 {
            let ci = entries.len() + 6 * k + j;
            let child = units[ci];
            let want_names: Vec<String> = pre[j].iter().flat_map(|p| base.names.iter().map(move |n| format!("{p}{n}"))).collect();
            let want_syms: Vec<String> = sym[j].iter().flat_map(|p| base.symbols.iter().map(move |n| format!("{p}{n}"))).collect();
            let got_names: Vec<String> = child.names.iter().map(|s| s.to_string()).collect();
            let got_syms: Vec<String> = child.symbols.iter().map(|s| s.to_string()).collect();
            if got_names != want_names { fail(ctx, format!("SI unit {ci} ({:?} of unit {bi}): names {got_names:?}, the prefixed forms are {want_names:?}", SIP[j]), "si-names"); }
            if got_syms != want_syms { fail(ctx, format!("SI unit {ci} ({:?} of unit {bi}): symbols {got_syms:?}, the prefixed forms are {want_syms:?}", SIP[j]), "si-symbols"); }
            let wr = base.ratio * scale[j];
            if child.ratio.to_bits() != wr.to_bits() && !(child.ratio.is_nan() && wr.is_nan()) { fail(ctx, format!("SI unit {ci}: ratio {}, expected {} x {}", child.ratio, base.ratio, scale[j]), "si-ratio"); }
            if child.physical_quantity != base.physical_quantity || child.system != base.system || (child.difference.to_bits() != base.difference.to_bits() && !(child.difference.is_nan() && base.difference.is_nan())) {
                fail(ctx, format!("SI unit {ci}: quantity/system/difference differ from unit {bi}"), "si-kind");
            }
            for f in want_names.iter().chain(want_syms.iter()) {
                match c.find_unit(f).and_then(|u| unit_pos(c, &u)) { Some(x) if x == ci => {}, other => fail(ctx, format!("prefixed form {f:?} resolves to {other:?}, its unit is {ci}"), "si-form-resolves") }
            }
        }
    }
}

/// The property's oracle on a converter the implementation returned (public API only).
fn oracle_converter(ctx: &mut Ctx, desc: &str, files: &[UnitsFile], c: &Converter, in_premise: bool) {
    let mut fail = |ctx: &mut Ctx, m: String, sig: &str| ctx.oracle_fail(desc.to_string(), m, format!("c16:{sig}"));
    // every key of every unit resolves to exactly that unit; no key is shared by two units
    let units: Vec<&Unit> = c.all_units().collect();
    let mut owner: HashMap<&str, usize> = HashMap::new();
    for (i, u) in units.iter().enumerate() {
        for k in all_keys(u) {
            match c.find_unit(k) {
                None => fail(ctx, format!("key {k:?} of unit {i} does not resolve"), "key-unresolved"),
                Some(f) => match unit_pos(c, &f) {
                    Some(j) if j == i => {}
                    other => fail(ctx, format!("key {k:?} of unit {i} resolves to unit {other:?}"), "key-resolves-elsewhere"),
                },
            }
            if let Some(j) = owner.insert(k, i) { if j != i { fail(ctx, format!("key {k:?} belongs to units {j} and {i}"), "shared-key"); } }
        }
        let r = guarded(|| c.is_best_unit(u));
        if let Err(p) = r { ctx.oracle_fail(desc.to_string(), format!("is_best_unit panics on unit {i} of the converter: {p}"), panic_signature(&p)); }
    }
    // best lists: own quantity, non-decreasing size
    for q in PQS {
        for s in [System::Metric, System::Imperial] {
            let l = c.best_units(q, Some(s));
            for u in &l {
                if u.physical_quantity != q { fail(ctx, format!("best list of {q} ({s}) holds {} which is a unit of {}", u, u.physical_quantity), "best-quantity"); }
                if unit_pos(c, u).is_none() { fail(ctx, format!("best list of {q} holds a unit that is not a unit of the converter: {u}"), "best-foreign"); }
            }
            if in_premise {
                for w in l.windows(2) {
                    if !(w[0].ratio <= w[1].ratio) { fail(ctx, format!("best list of {q} ({s}) not in increasing size: {} (ratio {}) before {} (ratio {})", w[0], w[0].ratio, w[1], w[1].ratio), "best-order"); }
                }
            }
        }
        // the last layer that gives a best list for q decides it
        let last = files.iter().rev().find_map(|f| f.quantity.iter().rev().find(|g| g.quantity == q && g.best.is_some()).and_then(|g| g.best.clone()));
        if let Some(b) = last {
            for s in [System::Metric, System::Imperial] {
                let names = match &b { BestUnits::Unified(v) => v, BestUnits::BySystem { metric, imperial } => if s == System::Metric { metric } else { imperial } };
                let mut want: Vec<usize> = names.iter().filter_map(|n| c.find_unit(n)).filter_map(|u| unit_pos(c, &u)).collect();
                let mut got: Vec<usize> = c.best_units(q, Some(s)).iter().filter_map(|u| unit_pos(c, u)).collect();
                if want.len() != names.len() { fail(ctx, format!("a best unit of {q} named by the last layer does not resolve"), "best-unresolved"); }
                want.sort(); got.sort();
                if want != got { fail(ctx, format!("best units of {q} ({s}) are units {got:?}, the last layer names units {want:?}"), "best-override"); }
            }
        }
    }
    let ds = files.iter().rev().find_map(|f| f.default_system).unwrap_or(System::Metric);
    if c.default_system() != ds { fail(ctx, format!("default system {} but the last layer that sets it says {}", c.default_system(), ds), "default-system"); }
}

/// One stack: correspondence + oracle.
pub fn one_stack(ctx: &mut Ctx, files: Vec<UnitsFile>, family: &str) {
    let op = format!("build ({})", files.iter().map(sx_file).collect::<Vec<_>>().join(" "));
    let desc = format!("{}request line: {}", describe(&files), op);
    let keep = files.clone();
    let in_premise = premise(&keep);
    ctx.count(&format!("family:{family}"));
    ctx.count(&format!("layers:{}", keep.len()));
    ctx.count(if in_premise { "premise:finite-positive" } else { "premise:outside(malformed)" });
    let built = build_impl(files);
    match &built {
        Built::Panic(p) => {
            if in_premise { ctx.oracle_fail(desc.clone(), format!("build panics: {p}"), panic_signature(p)); }
            else { ctx.count("panic-outside-premise(not judged)"); }
            ctx.count("result:panic");
            ctx.case(op, format!("panic {p}"), true, desc);
        }
        Built::Err(e) => {
            ctx.count(&format!("result:{}", e.split(' ').take(2).collect::<Vec<_>>().join(" ")));
            ctx.case(op, e.clone(), false, desc);
        }
        Built::Ok(c) => {
            ctx.count("result:ok");
            ctx.count(&format!("ok-units:{}", match c.unit_count() { 0..=5 => "<=5", 6..=12 => "6-12", 13..=30 => "13-30", _ => ">30" }));
            match render_converter(c) {
                Ok((r, skipped)) if skipped.is_empty() => ctx.case(op, r, true, desc.clone()),
                Ok((r, skipped)) => {
                    // private parts whose Debug shape changed are left out on both sides (units, keys, ratios, systems and the
                    // default system are still compared; behaviour of the skipped parts is tied through the C09 / C12 runs)
                    if !ctx.notes.iter().any(|n| n.starts_with("private parts of Converter")) {
                        ctx.notes.push(format!("private parts of Converter could not be read from its Debug rendering (its private representation changed): {skipped:?} of I=index, Q=quantity index, B=best lists, F=fraction tables are not compared with the model in this run"));
                    }
                    ctx.count(&format!("converter-parts-not-readable:{skipped}"));
                    ctx.case(op.replacen("build ", &format!("build_skip {skipped} "), 1), r, true, desc.clone())
                }
                Err(m) => { ctx.count("converter-debug-unreadable"); if !ctx.notes.iter().any(|n| n.starts_with("the Debug rendering of Converter")) { ctx.notes.push(format!("the Debug rendering of Converter cannot be read at all ({m}): built converters are judged by the oracles only in this run")); } }
            }
            oracle_converter(ctx, &desc, &keep, c, in_premise);
            oracle_precedence(ctx, &desc, &keep, c);
            oracle_si_forms(ctx, &desc, &keep, c);
        }
    }
}

/// "later layers extend, precede or override earlier ones as their precedence says", for the extend block of the last
/// layer: the converter built without that block gives the old lists of every addressed unit.
fn oracle_precedence(ctx: &mut Ctx, desc: &str, files: &[UnitsFile], c1: &Converter) {
    let Some(last) = files.last() else { return };
    let Some(ext) = &last.extend else { return };
    if ext.units.is_empty() { return; }
    // earlier blocks with several entries may be order dependent; the comparison converter is built from clones
    if files[..files.len() - 1].iter().any(|f| f.extend.as_ref().map_or(false, |e| e.units.len() > 1)) { ctx.count("precedence:skipped(earlier multi-entry block)"); return; }
    let mut without = files.to_vec();
    without.last_mut().unwrap().extend = None;
    let Built::Ok(c0) = build_impl(without) else { ctx.count("precedence:base-does-not-build"); return };
    if c0.unit_count() != c1.unit_count() { ctx.oracle_fail(desc.to_string(), "an extend block changed the number of units".into(), "c16:extend-unit-count".into()); return; }
    let declared = count_declared(files);
    ctx.count("precedence:checked-blocks");
    let u1: Vec<&Unit> = c1.all_units().collect();
    for (k, e) in &ext.units {
        let Some(old) = c0.find_unit(k) else { ctx.oracle_fail(desc.to_string(), format!("extend key {k:?} is unknown before the block, yet the build succeeded"), "c16:extend-unknown-accepted".into()); continue };
        let Some(i) = unit_pos(&c0, &old) else { continue };
        let new = u1[i];
        let is_base = i < declared;
        let mut fail = |m: String, sig: &str| ctx.oracle_fail(desc.to_string(), format!("extend {k:?} ({}): {m}", prec_name(ext.precedence)), format!("c16:{sig}"));
        let want_aliases = join_expected(&old.aliases, &e.aliases, ext.precedence);
        if new.aliases != want_aliases { fail(format!("aliases are {:?}, expected {:?}", new.aliases, want_aliases), "precedence-aliases"); }
        if is_base {
            let want = join_expected(&old.names, &e.names, ext.precedence);
            if new.names != want { fail(format!("names are {:?}, expected {:?}", new.names, want), "precedence-names"); }
            let want = join_expected(&old.symbols, &e.symbols, ext.precedence);
            if new.symbols != want { fail(format!("symbols are {:?}, expected {:?}", new.symbols, want), "precedence-symbols"); }
            let wr = e.ratio.unwrap_or(old.ratio);
            if new.ratio.to_bits() != wr.to_bits() { fail(format!("ratio is {}, expected {}", new.ratio, wr), "extend-ratio"); }
            let wd = e.difference.unwrap_or(old.difference);
            if new.difference.to_bits() != wd.to_bits() { fail(format!("difference is {}, expected {}", new.difference, wd), "extend-difference"); }
        }
        if new.physical_quantity != old.physical_quantity || new.system != old.system { fail("quantity or system changed".into(), "extend-quantity"); }
    }
}

fn describe(files: &[UnitsFile]) -> String {
    // a compact, replayable description: the S-expression (also the op line) is exact; this is for the reader
    let mut s = String::new();
    for (i, f) in files.iter().enumerate() {
        s.push_str(&format!("--- layer {i}: {f:?}\n"));
    }
    if s.len() > 6000 { s.truncate(6000); s.push_str("…"); }
    s
}

// ---------------------------------------------------------------------------------------------------------------
// generators

struct Pool { q: PhysicalQuantity, names: &'static [&'static str], symbols: &'static [&'static str], ratios: &'static [f64] }
const POOLS: [Pool; 5] = [
    Pool { q: PhysicalQuantity::Volume, names: &["liter", "cup", "spoon", "pint"], symbols: &["l", "c", "sp", "pt"], ratios: &[1.0, 0.236588236, 0.014786764, 0.473176473] },
    Pool { q: PhysicalQuantity::Mass, names: &["gram", "ounce", "pound", "stone"], symbols: &["g", "oz", "lb", "st"], ratios: &[1.0, 28.349523125, 453.59237, 6350.29318] },
    Pool { q: PhysicalQuantity::Length, names: &["meter", "inch", "foot"], symbols: &["m", "in", "ft"], ratios: &[1.0, 0.0254, 0.3048] },
    Pool { q: PhysicalQuantity::Temperature, names: &["celsius", "fahrenheit", "kelvin"], symbols: &["C", "F", "K"], ratios: &[1.0, 0.55555555556, 1.0] },
    Pool { q: PhysicalQuantity::Time, names: &["second", "minute", "hour", "day"], symbols: &["s", "min", "h", "d"], ratios: &[1.0, 60.0, 3600.0, 86400.0] },
];
const FRESH: [&str; 22] = ["litro", "taza", "gramo", "kilo", "metro", "pie", "hora", "día", "x", "y", "z", "fl oz", "°C", "onza líquida", "mins", "secs", "L", "kg", "ml", "cm", "dag", "hl"];
const ODD: [&str; 9] = ["", " ", "\u{a0}", "\t ", "\u{2003}\u{3000}", "\u{200b}", "\u{feff}", "\u{180e}", " a"];

#[derive(Clone)]
struct Known { key: String, q: PhysicalQuantity, unit: usize }

struct Gen { rng: Rng, known: Vec<Known>, next_unit: usize, fresh_i: usize, malformed: bool, bad: u32, has_si: bool }

fn arcs(v: &[String]) -> Vec<Arc<str>> { v.iter().map(|s| Arc::from(s.as_str())).collect() }

fn si_from(pre: [Vec<String>; 6], sym: Option<[Vec<String>; 6]>, with_pre: bool, prec: Precedence) -> SI {
    let tbl = |t: &[Vec<String>; 6]| {
        let names = ["kilo", "hecto", "deca", "deci", "centi", "milli"];
        let m: serde_json::Map<String, serde_json::Value> = names.iter().zip(t.iter()).map(|(n, v)| (n.to_string(), serde_json::json!(v))).collect();
        serde_json::Value::Object(m)
    };
    let mut o = serde_json::Map::new();
    if with_pre { o.insert("prefixes".into(), tbl(&pre)); }
    if let Some(s) = &sym { o.insert("symbol_prefixes".into(), tbl(s)); }
    o.insert("precedence".into(), serde_json::json!(prec_name(prec)));
    serde_json::from_value(serde_json::Value::Object(o)).expect("SI value")
}

impl Gen {
    fn prec(&mut self) -> Precedence { *self.rng.pick(&[Precedence::Before, Precedence::After, Precedence::Override]) }
    /// a mistake is planted with probability `bad * weight / 1000`
    fn oops(&mut self, weight: u32) -> bool { self.bad > 0 && self.rng.chance((self.bad * weight).min(1000), 1000) }
    fn fresh(&mut self) -> String {
        if self.oops(1) { return self.rng.pick(&ODD).to_string(); }
        if self.oops(8) || self.rng.chance(1, 12) {
            // a word that may already be in use (a plain collision or a collision with an SI form)
            let w = self.rng.pick(&FRESH).to_string();
            if self.bad > 0 || !self.known.iter().any(|k| k.key == w) { return w; }
        }
        self.fresh_i += 1;
        format!("n{}", self.fresh_i)
    }
    /// a key for a new name list: fresh, or (planted collision) a key that already exists
    fn new_key(&mut self, collide: u32) -> String {
        if !self.known.is_empty() && self.oops(collide) { return self.rng.pick(&self.known).key.clone(); }
        self.fresh()
    }
    fn ratio(&mut self, base: f64) -> f64 {
        if self.malformed && self.rng.chance(1, 6) { return *self.rng.pick(&[0.0, -1.0, f64::INFINITY, -0.0, f64::NEG_INFINITY, 1e-320, f64::MAX]); }
        match self.rng.below(6) { 0 => base, 1 => base * 10.0, 2 => 1.0, 3 => (self.rng.below(2000) + 1) as f64 / 8.0, 4 => base, _ => 10f64.powi(self.rng.range(-3, 4) as i32) }
    }
    fn si(&mut self, full: bool) -> SI {
        // a later table that overrides must be complete, or every expansion fails
        let p = if full || self.rng.chance(1, 5) { self.prec() } else { *self.rng.pick(&[Precedence::Before, Precedence::After]) };
        let layered = !full;
        let full = full || p == Precedence::Override;
        let names = ["kilo", "hecto", "deca", "deci", "centi", "milli"];
        let syms = ["k", "h", "da", "d", "c", "m"];
        let mut pre: [Vec<String>; 6] = Default::default();
        let mut sym: [Vec<String>; 6] = Default::default();
        for i in 0..6 {
            // tables of later layers: mostly extra prefixes (so that the joined table still expands every unit)
            let hole = if full { self.oops(2) } else { self.rng.chance(1, 3) };
            let hole2 = if full { self.oops(2) } else { self.rng.chance(1, 3) };
            if !hole { pre[i].push(if !layered { names[i].to_string() } else { format!("{}{}", ["K", "H", "DA", "D", "C", "M"][i], &names[i][1..]) }); }
            if !hole2 { sym[i].push(if !layered { syms[i].to_string() } else { format!("{}_", syms[i]) }); }
            if self.rng.chance(1, 8) { pre[i].push(["kil-", "hec-", "dca-", "dci-", "cen-", "mil-"][i].to_string()); }
            if self.rng.chance(1, 8) { sym[i].push(syms[i].to_uppercase()); }
            if self.oops(1) { let k = self.fresh(); sym[i].push(k); }
        }
        let with_pre = if full { !self.oops(3) } else { !self.rng.chance(1, 4) };
        let with_sym = if full { !self.oops(3) } else { !self.rng.chance(1, 4) };
        si_from(pre, if with_sym { Some(sym) } else { None }, with_pre, p)
    }
    fn wrapper(&mut self) -> FractionsConfigWrapper {
        if self.rng.chance(1, 2) { return FractionsConfigWrapper::Toggle(self.rng.chance(1, 2)); }
        let acc = if self.malformed && self.rng.chance(1, 4) { *self.rng.pick(&[f32::NAN, f32::INFINITY, -1.0]) } else { *self.rng.pick(&[0.0f32, 0.01, 0.05, 0.1, 0.5, 1.0, 1.5, -0.25]) };
        FractionsConfigWrapper::Custom(FractionsConfigHelper {
            enabled: if self.rng.chance(1, 2) { Some(self.rng.chance(1, 2)) } else { None },
            accuracy: if self.rng.chance(1, 2) { Some(acc) } else { None },
            max_denominator: if self.rng.chance(1, 2) { Some(*self.rng.pick(&[0u8, 1, 2, 3, 4, 8, 16, 17, 64, 255])) } else { None },
            max_whole: if self.rng.chance(1, 2) { Some(*self.rng.pick(&[0u32, 1, 5, 100, u32::MAX])) } else { None },
        })
    }
    fn some_known_key(&mut self, unknown: u32) -> String {
        if self.known.is_empty() || self.oops(unknown) { return self.fresh(); }
        self.rng.pick(&self.known).key.clone()
    }
    fn fractions(&mut self) -> Fractions {
        let mut f = Fractions::default();
        if self.rng.chance(1, 3) { f.all = Some(self.wrapper()); }
        if self.rng.chance(1, 2) { f.metric = Some(self.wrapper()); }
        if self.rng.chance(1, 2) { f.imperial = Some(self.wrapper()); }
        for q in PQS { if self.rng.chance(1, 4) { let w = self.wrapper(); f.quantity.insert(q, w); } }
        for _ in 0..self.rng.below(4) { let k = self.some_known_key(3); let w = self.wrapper(); f.unit.insert(k, w); }
        f
    }
    /// entries of one quantity group; registers their keys (and the SI forms) in `known`
    fn entries(&mut self, pool: &Pool, n: usize, used: &mut Vec<usize>) -> Vec<UnitEntry> {
        let collide = 4;
        let mut out = vec![];
        for _ in 0..n {
            let free: Vec<usize> = (0..pool.names.len()).filter(|i| !used.contains(i)).collect();
            let (mut names, mut symbols, base) = if !free.is_empty() && !self.rng.chance(1, 6) {
                let i = *self.rng.pick(&free); used.push(i);
                let mut names = vec![pool.names[i].to_string()];
                if self.rng.chance(2, 3) { names.push(format!("{}s", pool.names[i])); }
                let mut symbols = vec![pool.symbols[i].to_string()];
                if self.rng.chance(1, 4) { symbols.push(format!("{}.", pool.symbols[i])); }
                (names, symbols, pool.ratios[i])
            } else {
                let (mut nn, ns) = (self.rng.below(3), self.rng.below(3));
                if nn + ns == 0 && !self.oops(10) { nn = 1; }
                ((0..nn).map(|_| self.new_key(collide)).collect(), (0..ns).map(|_| self.new_key(collide)).collect(), 1.0)
            };
            let mut aliases: Vec<String> = vec![];
            if self.rng.chance(1, 4) { let k = self.new_key(collide); aliases.push(k); }
            if self.oops(collide) { let k = self.new_key(1000); match self.rng.below(3) { 0 => names.push(k), 1 => symbols.push(k), _ => aliases.push(k) } }
            // SI expansion of units with short symbols collides with other units (m+in = min, d+a…) — keep it on the metric base names mostly
            let expand_si = (self.has_si || self.oops(10)) && self.rng.chance(1, 4) && (self.oops(20) || names.first().map_or(false, |n| ["liter", "gram", "meter", "kelvin", "second"].contains(&n.as_str())) || self.rng.chance(1, 8));
            let ratio = self.ratio(base);
            let difference = if pool.q == PhysicalQuantity::Temperature || self.rng.chance(1, 12) {
                if self.malformed && self.rng.chance(1, 6) { f64::NAN } else { *self.rng.pick(&[0.0, 273.15, 459.67, -10.0]) }
            } else { 0.0 };
            let id = self.next_unit; self.next_unit += 1;
            for k in names.iter().chain(symbols.iter()).chain(aliases.iter()) { self.known.push(Known { key: k.clone(), q: pool.q, unit: id }); }
            if expand_si {
                // the usual prefixed forms (each is its own unit; ids are not tracked exactly, a distinct tag is enough)
                let forms = [("kilo", "k"), ("hecto", "h"), ("deca", "da"), ("deci", "d"), ("centi", "c"), ("milli", "m")];
                for (j, (pn, ps)) in forms.iter().enumerate() {
                    for n in &names { self.known.push(Known { key: format!("{pn}{n}"), q: pool.q, unit: 100_000 + id * 10 + j }); }
                    for s in &symbols { self.known.push(Known { key: format!("{ps}{s}"), q: pool.q, unit: 100_000 + id * 10 + j }); }
                }
            }
            out.push(UnitEntry { names: arcs(&names), symbols: arcs(&symbols), aliases: arcs(&aliases), ratio, difference, expand_si });
        }
        out
    }
    fn units_decl(&mut self, v: Vec<UnitEntry>) -> Units {
        if self.rng.chance(1, 3) { return Units::Unified(v); }
        let (mut m, mut i, mut u) = (vec![], vec![], vec![]);
        for e in v { match self.rng.below(5) { 0 | 1 => m.push(e), 2 | 3 => i.push(e), _ => u.push(e) } }
        Units::BySystem { metric: m, imperial: i, unspecified: u }
    }
    /// a best list for quantity q: names of known units of q, with planted mistakes at rate `bad`/100
    fn best_list(&mut self, q: PhysicalQuantity, bad: u32) -> Vec<String> {
        let own: Vec<Known> = self.known.iter().filter(|k| k.q == q).cloned().collect();
        let other: Vec<Known> = self.known.iter().filter(|k| k.q != q).cloned().collect();
        let mut v = vec![];
        let n = 1 + self.rng.below(3);
        for _ in 0..n {
            if !own.is_empty() { v.push(self.rng.pick(&own).key.clone()); }
        }
        let _ = bad;
        if self.oops(12) {
            match self.rng.below(5) {
                0 => v.clear(),
                1 => { let k = self.fresh(); v.push(k) }
                2 | 3 => if !other.is_empty() { let k = self.rng.pick(&other).key.clone(); let at = self.rng.below(v.len() + 1); v.insert(at, k); },
                _ => if !other.is_empty() { v = vec![self.rng.pick(&other).key.clone()]; },
            }
        }
        v
    }
    fn best_decl(&mut self, q: PhysicalQuantity, bad: u32) -> BestUnits {
        if self.rng.chance(1, 2) { BestUnits::Unified(self.best_list(q, bad)) }
        else { BestUnits::BySystem { metric: self.best_list(q, bad), imperial: self.best_list(q, bad) } }
    }
    fn extend(&mut self, bad: u32) -> Extend {
        let mut units = HashMap::new();
        let n = 1 + self.rng.below(4);
        for _ in 0..n {
            let _ = bad;
            let mut k = self.some_known_key(6);
            // two keys of one unit in a block are a DuplicateExtendUnit error: avoid unless a mistake is wanted
            for _ in 0..4 {
                let unit_of = |key: &String| self.known.iter().find(|x| &x.key == key).map(|x| x.unit);
                let clash = match unit_of(&k) { Some(u) => units.keys().any(|o: &String| unit_of(o) == Some(u)), None => false };
                if !clash || self.oops(20) { break; }
                k = self.some_known_key(6);
            }
            let on_expanded = self.known.iter().any(|x| x.key == k && x.unit >= 100_000);
            let base_fields = if on_expanded { self.oops(15) } else { true };
            let mut e = ExtendUnitEntry::default();
            let lists = |g: &mut Gen| -> Vec<Arc<str>> { let n = 1 + g.rng.below(2); let v: Vec<String> = (0..n).map(|_| g.new_key(5)).collect(); arcs(&v) };
            if self.rng.chance(2, 3) { e.aliases = Some(lists(self)); }
            if base_fields {
                if self.rng.chance(1, 2) { e.names = Some(lists(self)); }
                if self.rng.chance(1, 3) { e.symbols = Some(lists(self)); }
                if self.rng.chance(1, 5) { e.ratio = Some(self.ratio(2.0)); }
                if self.rng.chance(1, 8) { e.difference = Some(1.5); }
            }
            if base_fields && self.rng.chance(1, 30) { e.names = Some(vec![]); }
            if base_fields && self.rng.chance(1, 30) { e.symbols = Some(vec![]); }
            units.insert(k, e);
        }
        Extend { precedence: self.prec(), units }
    }

    fn base_file(&mut self, bad: u32) -> UnitsFile {
        let mut quantity = vec![];
        let si = if !self.oops(5) { Some(self.si(true)) } else { None };
        self.has_si = si.as_ref().map_or(false, |s| s.prefixes.is_some() && s.symbol_prefixes.is_some());
        let order: Vec<usize> = { let mut o: Vec<usize> = (0..5).collect(); if self.rng.chance(1, 3) { self.rng.shuffle(&mut o); } o };
        let mut groups: Vec<(usize, Vec<UnitEntry>)> = vec![];
        for qi in order {
            let pool = &POOLS[qi];
            let n = 1 + self.rng.below(3);
            let mut used = vec![];
            let es = self.entries(pool, n, &mut used);
            groups.push((qi, es));
        }
        for (qi, es) in groups {
            let q = POOLS[qi].q;
            let best = if self.oops(3) { None } else { Some(self.best_decl(q, bad)) };
            let units = Some(self.units_decl(es));
            quantity.push(QuantityGroup { quantity: q, best, units });
        }
        UnitsFile {
            default_system: if self.rng.chance(1, 2) { Some(*self.rng.pick(&[System::Metric, System::Imperial])) } else { None },
            si,
            fractions: if self.rng.chance(1, 2) { Some(self.fractions()) } else { None },
            extend: if self.rng.chance(1, 8) { Some(self.extend(bad)) } else { None },
            quantity,
        }
    }
    fn layer_file(&mut self, bad: u32) -> UnitsFile {
        let mut quantity = vec![];
        for _ in 0..self.rng.below(3) {
            let qi = self.rng.below(5);
            let pool = &POOLS[qi];
            let es = if self.rng.chance(1, 2) {
                let n = 1 + self.rng.below(2);
                // the pool names are mostly taken by the base file: use free ones or fresh names
                let mut used: Vec<usize> = (0..pool.names.len()).filter(|i| self.known.iter().any(|k| k.key == pool.names[*i])).collect();
                Some(self.entries(pool, n, &mut used))
            } else { None };
            let best = if self.rng.chance(1, 2) { Some(self.best_decl(pool.q, bad)) } else { None };
            let units = match es { Some(e) => Some(self.units_decl(e)), None => if self.rng.chance(1, 10) { Some(Units::Unified(vec![])) } else { None } };
            quantity.push(QuantityGroup { quantity: pool.q, best, units });
        }
        UnitsFile {
            default_system: if self.rng.chance(1, 3) { Some(*self.rng.pick(&[System::Metric, System::Imperial])) } else { None },
            si: if self.rng.chance(1, 3) { Some(self.si(false)) } else { None },
            fractions: if self.rng.chance(1, 3) { Some(self.fractions()) } else { None },
            extend: if self.rng.chance(3, 4) { Some(self.extend(bad)) } else { None },
            quantity,
        }
    }
}

fn gen_stack(rng: &mut Rng, malformed: bool) -> (Vec<UnitsFile>, u32) {
    // rate of planted mistakes, chosen per stack
    let mut r = rng.fork(16);
    let bad = *r.pick(&[0u32, 0, 0, 0, 1, 2, 4, 8, 20]);
    let mut g = Gen { rng: r, known: vec![], next_unit: 0, fresh_i: 0, malformed, bad, has_si: false };
    let n = 1 + g.rng.below(3);
    let mut files = vec![g.base_file(bad)];
    for _ in 1..n { let f = g.layer_file(bad); files.push(f); }
    (files, bad)
}

fn read_toml(path: &std::path::Path) -> Result<Vec<UnitsFile>, String> {
    // a corpus file holds one stack: TOML layers separated by lines that start with `#====`
    let text = std::fs::read_to_string(path).map_err(|e| e.to_string())?;
    let mut layers = vec![String::new()];
    for l in text.lines() {
        if l.starts_with("#====") { layers.push(String::new()); } else { let c = layers.last_mut().unwrap(); c.push_str(l); c.push('\n'); }
    }
    layers.iter().map(|t| toml::from_str::<UnitsFile>(t).map_err(|e| format!("{}: {e}", path.display()))).collect()
}

fn repo_root() -> String { std::env::var("VERIF_REPO").unwrap_or_else(|_| "/repo".to_string()) }

pub fn run(ctx: &mut Ctx) {
    ctx.rule = "stacks of 1-3 UnitsFile values: a base layer declaring 1-3 units for each of the 5 quantities (pool names, SI expansion on a quarter of them, \
prefix tables mostly complete) with best lists, followed by layers with new units, best overrides, extend blocks (all precedences; keys of base and of SI-expanded units; \
names/symbols/aliases/ratio/difference), SI tables with precedence, fractions and default system; mistakes (colliding / blank keys, unknown / wrong-quantity / empty best \
lists, unknown or doubled extend keys, base fields on expanded units, missing prefix tables) planted at a per-stack rate of 0-40%; a malformed stream adds zero / negative / \
infinite ratios and NaN differences / accuracies (compared with the model, not judged by the oracle); plus the corpus, units.toml, units/spanish.toml and Converter::default(). \
non-trivial = the build returned a converter (or panicked); distinct = distinct request lines".into();

    ctx.notes.push("observations that are not findings: (1) the outcome of an extend block can depend on the hash-map order when entries interact (C16_extend_order needs disjoint key sets; the request line carries the real order); (2) two keys of one unit in the same [fractions.unit] table: the later one in hash-map order wins (the property is silent about fractions; compared with the model in the real order)".into());
    // 0. key.trim().is_empty() against the model's table of white space
    {
        let mut n = 0u64;
        let lim = if ctx.thorough { 0x110000u32 } else { 0x3100 };
        for cp in 0..lim {
            let Some(ch) = char::from_u32(cp) else { continue };
            let s = ch.to_string();
            ctx.case(format!("blank {}", enc_text(&s)), (s.trim().is_empty() as u8).to_string(), ch.is_whitespace(), format!("U+{cp:04X}"));
            n += 1;
        }
        for s in ODD { ctx.case(format!("blank {}", enc_text(s)), (s.trim().is_empty() as u8).to_string(), true, format!("{s:?}")); }
        ctx.count_n("blank-key-chars", n);
        if ctx.thorough { ctx.notes.push("key.trim().is_empty() compared with the model for every Unicode scalar value".into()); }
    }

    // 1. corpus (past failures first)
    let corpus = std::path::Path::new(env!("CARGO_MANIFEST_DIR")).join("../corpus/C16");
    if let Ok(rd) = std::fs::read_dir(&corpus) {
        let mut files: Vec<_> = rd.filter_map(|e| e.ok()).map(|e| e.path()).filter(|p| p.extension().map_or(false, |x| x == "toml")).collect();
        files.sort();
        for p in files {
            match read_toml(&p) {
                Ok(stack) => { ctx.count("corpus"); one_stack(ctx, stack, "corpus"); }
                Err(e) => { ctx.notes.push(format!("corpus file unreadable: {e}")); ctx.count("corpus-unreadable"); }
            }
        }
    }

    // 2. the shipped files and the default converter
    let repo = repo_root();
    let shipped = std::fs::read_to_string(format!("{repo}/units.toml")).ok().and_then(|t| toml::from_str::<UnitsFile>(&t).ok());
    let spanish = std::fs::read_to_string(format!("{repo}/units/spanish.toml")).ok().and_then(|t| toml::from_str::<UnitsFile>(&t).ok());
    match &shipped {
        None => { ctx.notes.push(format!("units.toml not readable under {repo}")); ctx.count("shipped-unreadable"); }
        Some(sh) => {
            one_stack(ctx, vec![sh.clone()], "units.toml");
            one_stack(ctx, vec![UnitsFile::bundled()], "UnitsFile::bundled()");
            if *sh != UnitsFile::bundled() {
                ctx.oracle_fail("UnitsFile::bundled() vs units.toml".into(), "the bundled units file differs from units.toml read with toml".into(), "c16:bundled-differs".into());
            }
            let desc = "Converter::default() / Converter::bundled() vs the converter built from units.toml".to_string();
            let dflt = guarded(|| (Converter::default(), Converter::bundled()));
            match (dflt, build_impl(vec![sh.clone()])) {
                (Ok((d, b)), Built::Ok(c)) => {
                    if d != c || b != c { ctx.oracle_fail(desc.clone(), "the default converter differs from the one built from units.toml".into(), "c16:default-differs".into()); }
                    // the generated Lean value of units.toml, built by the model, against the default converter
                    match render_converter(&d) { Ok((r, skipped)) if skipped.is_empty() => ctx.case("build_shipped".into(), r, true, desc.clone()), Ok(_) | Err(_) => ctx.count("shipped-converter-parts-not-readable(not compared)") }
                    ctx.case("build_shipped_exact_ok".into(), format!("ok {}", d.unit_count()), true, "the shipped file builds over exact rationals".into());
                    oracle_converter(ctx, &desc, &[sh.clone()], &d, true);
                }
                (Err(p), _) => ctx.oracle_fail(desc, format!("Converter::default() panics: {p}"), panic_signature(&p)),
                (_, Built::Err(e)) => ctx.oracle_fail(desc, format!("units.toml is rejected: {e}"), "c16:shipped-rejected".into()),
                (_, Built::Panic(p)) => ctx.oracle_fail(desc, format!("building units.toml panics: {p}"), panic_signature(&p)),
            }
            if let Some(sp) = &spanish {
                one_stack(ctx, vec![sh.clone(), sp.clone()], "units.toml+spanish.toml");
                // the layer file shipped as the example of an extension of the bundled units is a valid layer
                match build_impl(vec![sh.clone(), sp.clone()]) {
                    Built::Ok(c) => {
                        let want: [(&str, &str); 4] = [("litro", "liter"), ("kilo", "kg"), ("día", "d"), ("mililitro", "ml")];
                        for (es, en) in want {
                            let (a, b) = (c.find_unit(es).and_then(|u| unit_pos(&c, &u)), c.find_unit(en).and_then(|u| unit_pos(&c, &u)));
                            if a.is_none() || a != b { ctx.oracle_fail("units.toml + units/spanish.toml".into(), format!("{es:?} resolves to unit {a:?}, {en:?} to unit {b:?}"), "c16:shipped-layer-names".into()); }
                        }
                    }
                    Built::Err(e) => ctx.oracle_fail("units.toml + units/spanish.toml".into(), format!("the shipped extension layer is rejected: {e}"), "c16:shipped-layer-rejected".into()),
                    Built::Panic(p) => ctx.oracle_fail("units.toml + units/spanish.toml".into(), format!("panic {p}"), panic_signature(&p)),
                }
                one_stack(ctx, vec![UnitsFile::bundled(), sp.clone(), sp.clone()], "units.toml+spanish.toml twice");
            } else { ctx.count("spanish-unreadable"); }
        }
    }

    // 3. generated stacks
    let mut rng = Rng::new(ctx.seed ^ 0xC16);
    let n = if ctx.thorough { 600_000 } else { 20_000 };
    for i in 0..n {
        let malformed = i % 10 == 9;
        let (stack, bad) = gen_stack(&mut rng, malformed);
        let before = ctx.counters.clone();
        one_stack(ctx, stack, if malformed { "generated-malformed" } else { "generated" });
        let what = ctx.counters.iter().find(|(k, v)| k.starts_with("result:") && before.get(*k).copied().unwrap_or(0) != **v).map(|(k, _)| k[7..].to_string()).unwrap_or_default();
        ctx.count(&format!("mistake-rate:{bad:02}:{what}"));
    }
}
