//! C06 The recipe model is referentially consistent (+ the shared `recipe` correspondence op).
use crate::ctx::Ctx;
use crate::render::*;
use crate::util::{enc_text, guarded, panic_signature};
use cooklang::model::{Content, Item};
use cooklang::{Converter, CooklangParser, Extensions, Modifiers, ScalableRecipe};

pub fn has_front_matter(input: &str) -> bool {
    cooklang::parser::PullParser::new(input, Extensions::empty()).next().map(|e| matches!(e, cooklang::parser::Event::YAMLFrontMatter(_))).unwrap_or(false)
}

/// the invariant of C06 over the public fields of the recipe; returns the first violation
pub fn check_invariant(r: &ScalableRecipe, valid: bool) -> Option<(String, String)> {
    let fail = |sig: &str, m: String| Some((format!("c06:{sig}"), m));
    let (ni, nc, nt, nq) = (r.ingredients.len(), r.cookware.len(), r.timers.len(), r.inline_quantities.len());
    let (mut li, mut lc, mut lt, mut lq) = (0usize, 0usize, 0usize, 0usize); // lower bound for the next index per table: document order = strictly increasing (a components-mode block adds components without items, so indices may be skipped)
    for (si, sec) in r.sections.iter().enumerate() {
        if sec.name.is_none() && sec.content.is_empty() { return fail("empty-section", format!("section {si} is empty")); }
        let mut number = 1u32;
        for (ci, c) in sec.content.iter().enumerate() {
            match c {
                Content::Text(t) => { if t.is_empty() { return fail("empty-text", format!("section {si} content {ci} is an empty text paragraph")); } }
                Content::Step(st) => {
                    if st.number != number { return fail("step-number", format!("section {si} step at {ci} has number {} expected {number}", st.number)); }
                    number += 1;
                    if st.items.is_empty() { return fail("empty-step", format!("section {si} step {} has no items", st.number)); }
                    for it in &st.items {
                        match it {
                            Item::Text { value } => { if value.is_empty() { return fail("empty-text-item", format!("empty text item in section {si} step {}", st.number)); } }
                            Item::Ingredient { index } => { if *index >= ni { return fail("index", format!("ingredient index {index} out of range {ni}")); } if *index < li { return fail("order", format!("ingredient index {index} referenced out of document order (an item before it has index >= it; next free {li})")); } li = *index + 1; }
                            Item::Cookware { index } => { if *index >= nc { return fail("index", format!("cookware index {index} out of range {nc}")); } if *index < lc { return fail("order", format!("cookware index {index} out of document order (expected {lc})")); } lc = *index + 1; }
                            Item::Timer { index } => { if *index >= nt { return fail("index", format!("timer index {index} out of range {nt}")); } if *index < lt { return fail("order", format!("timer index {index} out of document order (expected {lt})")); } lt = *index + 1; }
                            Item::InlineQuantity { index } => { if *index >= nq { return fail("index", format!("inline quantity index {index} out of range {nq}")); } if *index < lq { return fail("order", format!("inline quantity index {index} out of document order (expected {lq})")); } lq = *index + 1; }
                        }
                    }
                }
            }
        }
    }
    // where each ingredient sits (section index, content index) for step/section reference checks
    let mut pos = vec![None; ni];
    for (si, sec) in r.sections.iter().enumerate() { for (ci, c) in sec.content.iter().enumerate() { if let Content::Step(st) = c { for it in &st.items { if let Item::Ingredient { index } = it { if *index < ni { pos[*index] = Some((si, ci)); } } } } } }
    for (idx, i) in r.ingredients.iter().enumerate() {
        if let Some((to, target)) = i.relation.references_to() {
            use cooklang::model::IngredientReferenceTarget as T;
            match target {
                T::Ingredient => {
                    if to >= idx { return fail("ref-earlier", format!("ingredient {idx} references {to}, not an earlier one")); }
                    let d = &r.ingredients[to];
                    if !d.relation.is_definition() { return fail("ref-to-def", format!("ingredient {idx} references {to} which is not a definition")); }
                    let n = d.relation.referenced_from().iter().filter(|&&x| x == idx).count();
                    if n != 1 { return fail("backlink", format!("definition {to} lists referrer {idx} {n} times")); }
                    if valid && !unicase::UniCase::new(&i.name).eq(&unicase::UniCase::new(&d.name)) { return fail("ref-name", format!("reference {idx} '{}' and its definition '{}' differ in name", i.name, d.name)); }
                }
                T::Step => {
                    // only checkable when the ingredient is in a pushed step (not in components mode)
                    if let Some((si, ci)) = pos[idx] {
                        let sec = &r.sections[si];
                        if to >= ci || !sec.content.get(to).map(|c| c.is_step()).unwrap_or(false) { return fail("step-ref", format!("ingredient {idx} in section {si} content {ci} references step content index {to}")); }
                    }
                }
                T::Section => {
                    if let Some((si, _)) = pos[idx] { if to >= si { return fail("section-ref", format!("ingredient {idx} in section {si} references section {to}")); } }
                    if to >= r.sections.len() { return fail("section-ref", format!("ingredient {idx} references section {to} of {}", r.sections.len())); }
                }
            }
        } else {
            for &f in i.relation.referenced_from() {
                if f <= idx || f >= ni { return fail("backlink", format!("definition {idx} lists referrer {f}")); }
                if r.ingredients[f].relation.references_to().map(|x| x.0) != Some(idx) || !r.ingredients[f].relation.is_regular_reference() { return fail("backlink", format!("definition {idx} lists {f} which does not reference it")); }
            }
        }
        if valid {
            let is_ref = i.relation.references_to().is_some();
            if is_ref != i.modifiers().contains(Modifiers::REF) { return fail("ref-iff-modifier", format!("ingredient {idx}: is reference = {is_ref}, REF modifier = {}", i.modifiers().contains(Modifiers::REF))); }
        }
    }
    for (idx, c) in r.cookware.iter().enumerate() {
        match &c.relation {
            cooklang::model::ComponentRelation::Reference { references_to } => {
                let to = *references_to;
                if to >= idx { return fail("ref-earlier", format!("cookware {idx} references {to}")); }
                let d = &r.cookware[to];
                if !d.relation.is_definition() { return fail("ref-to-def", format!("cookware {idx} references non-definition {to}")); }
                let n = d.relation.referenced_from().iter().filter(|&&x| x == idx).count();
                if n != 1 { return fail("backlink", format!("cookware definition {to} lists referrer {idx} {n} times")); }
                if valid && !unicase::UniCase::new(&c.name).eq(&unicase::UniCase::new(&d.name)) { return fail("ref-name", format!("cookware reference {idx} name differs from definition")); }
            }
            cooklang::model::ComponentRelation::Definition { referenced_from, .. } => {
                for &f in referenced_from { if f <= idx || f >= nc || r.cookware[f].relation.references_to() != Some(idx) { return fail("backlink", format!("cookware definition {idx} lists {f}")); } }
            }
        }
        if valid && c.relation.is_reference() != c.modifiers().contains(Modifiers::REF) { return fail("ref-iff-modifier", format!("cookware {idx} reference/modifier mismatch")); }
    }
    for (idx, t) in r.timers.iter().enumerate() { if t.name.is_none() && t.quantity.is_none() { return fail("timer", format!("timer {idx} has neither name nor quantity")); } }
    None
}

/// shared: parse with the real parser, compare the whole result with the model
pub fn recipe_case(ctx: &mut Ctx, input: &str, ext_bits: u32, conv: u8) -> Option<cooklang::RecipeResult> {
    let ext = Extensions::from_bits_retain(ext_bits);
    let parser = CooklangParser::new(ext, if conv == 0 { Converter::empty() } else { Converter::bundled() });
    let desc = format!("ext={ext_bits} conv={conv} input={input:?}");
    match guarded(|| parser.parse(input)) {
        Err(p) => {
            ctx.case(format!("recipe {ext_bits} {conv} {}", enc_text(input)), "PANIC".into(), true, desc.clone());
            ctx.oracle_fail(desc, format!("parse panicked: {p}"), panic_signature(&p));
            None
        }
        Ok(res) => {
            let fm = has_front_matter(input);
            let nontrivial = res.output().map(|r| !r.ingredients.is_empty() || !r.cookware.is_empty() || !r.timers.is_empty() || r.sections.len() > 1).unwrap_or(false) || !res.report().is_empty();
            ctx.case(format!("recipe {ext_bits} {conv} {}", enc_text(input)), r_analysis(&res, fm), nontrivial, desc);
            // with front matter the reply above leaves its content out: the interpreted result goes through `recipe_fm`
            if fm { crate::fm::fm_case(ctx, input, ext_bits, conv, (crate::util::hash64(input) % 4) as u8); }
            Some(res)
        }
    }
}

pub fn run(ctx: &mut Ctx) {
    ctx.rule = "inputs as for C04 (corpus, exhaustive short token strings, soups, structured recipes with references / intermediate references / modes, mutations), all 256 extension patterns, empty and bundled converter; per input the whole parse result (sections, items, components, relations, modifiers, metadata, diagnostics with labels) is compared with the model and the C06 invariant is evaluated on the implementation's recipe (valid or not). non-trivial = has components, several sections or diagnostics".into();
    let mut n = 0u64;
    // well-formed recipes (references, intermediate references, text blocks, sections) in several styles,
    // and a targeted family: text paragraphs and steps interleaved, then numbered / relative step and section references
    {
        let mut rng = crate::rng::Rng::new(ctx.seed ^ 0xC06A);
        let mut texts: Vec<(String, u32, u8)> = Vec::new();
        let nw = if ctx.thorough { 30_000 } else { 1_500 };
        for i in 0..nw {
            let r = crate::wf::generate(&mut rng, i % 4 != 0);
            let st = if i % 3 == 0 { crate::wf::Style::plain() } else { crate::wf::Style { seed: rng.next(), spaces: true, comments: i % 3 == 2, wrap: i % 5 == 0, crlf: false, unit_space: i % 2 == 0 } };
            texts.push((crate::wf::spell(&r, &st), if r.extended { 0xEEA } else { 0 }, (i % 2) as u8));
        }
        let nt = if ctx.thorough { 40_000 } else { 2_000 };
        for i in 0..nt {
            let mut s = String::new();
            let nsec = 1 + rng.below(3);
            for sec in 0..nsec {
                if sec > 0 || rng.chance(1, 2) { s.push_str(&format!("= S{sec}\n\n")); }
                let nb = 1 + rng.below(5);
                let mut steps = 0;
                for _ in 0..nb {
                    if rng.chance(1, 3) { s.push_str("> a note\n\n"); continue; }
                    let target = match rng.below(7) { 0 => format!("@&({})mix{{}}", 1 + rng.below(steps + 2)), 1 => format!("@&(~{})mix{{}}", 1 + rng.below(steps + 2)), 2 => format!("@&(={})mix{{}}", 1 + rng.below(sec + 2)), 3 => format!("@&(=~{})mix{{}}", 1 + rng.below(sec + 2)), 4 => "@flour{1%kg} and @&flour{}".to_string(),
                        5 => rng.pick_str(&["@salt{} then @&?salt{}", "#pan{} then #&-pan{}", "@-oil{} then @&oil{2%ml} and @&?oil{}", "@Ñora{2} then @&ñora{}", "@egg{} then @&@egg{}", "#pot{} and #&pot{}(note)", "@milk{1%l}(cold) and @&milk{}(warm)"]).to_string(),
                        _ => "@salt{}".to_string() };
                    s.push_str(&format!("Step with {target} here.\n\n"));
                    steps += 1;
                }
            }
            texts.push((s, if i % 7 == 0 { crate::gen::ext_pattern(rng.below(256)) } else { 0xEEA }, (i % 2) as u8));
        }
        for (t, e, conv) in texts {
            n += 1;
            if let Some(res) = recipe_case(ctx, &t, e, conv) {
                if let Some(r) = res.output() {
                    ctx.count(if res.is_valid() { "wf/targeted:valid" } else { "wf/targeted:invalid" });
                    if let Some((sig, m)) = check_invariant(r, res.is_valid()) { ctx.oracle_fail(format!("ext={e} conv={conv} input={t:?}"), m, sig); }
                }
            }
        }
    }
    crate::props::c04::inputs(ctx, 0xC06, &mut |ctx, s, e| {
        n += 1;
        let conv = (n % 2) as u8;
        if let Some(res) = recipe_case(ctx, s, e, conv) {
            if let Some(r) = res.output() {
                ctx.count(if res.is_valid() { "output:valid" } else { "output:invalid" });
                if let Some((sig, m)) = check_invariant(r, res.is_valid()) { ctx.oracle_fail(format!("ext={e} conv={conv} input={s:?}"), m, sig); }
            } else { ctx.count("output:none"); }
        }
    });
}
