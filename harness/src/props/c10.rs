//! C10 Grouping and listing ingredients conserves quantities.
use crate::ctx::Ctx;
use crate::props::c09::{render_quantity, render_value, spec_quantity};
use crate::rng::Rng;
use crate::util::{enc_text, guarded, panic_signature};
use cooklang::aisle;
use cooklang::convert::Converter;
use cooklang::ingredient_list::{CategorizedIngredientList, IngredientList};
use cooklang::model::{Ingredient, IngredientReferenceTarget};
use cooklang::quantity::{GroupedQuantity, GroupedValue, Number, Quantity, QuantityValue, ScaledQuantity, Value};
use cooklang::{CooklangParser, Extensions, Modifiers, ScaledRecipe};
use std::collections::{BTreeMap, BTreeSet};

// ---------------------------------------------------------------- canonical rendering (mirrors Driver/Group.lean)

const PQS: [&str; 5] = ["volume", "mass", "length", "temperature", "time"];

fn json_quantity(v: &serde_json::Value) -> Option<ScaledQuantity> { serde_json::from_value(v.clone()).ok() }

/// the private fields of a group, read through its `Serialize` image
struct Parts { known: Vec<(String, ScaledQuantity)>, unknown: Vec<(String, ScaledQuantity)>, other: Vec<ScaledQuantity>, no_unit: Option<ScaledQuantity> }

fn parts(g: &GroupedQuantity) -> Option<Parts> {
    let v = serde_json::to_value(g).ok()?;
    let mut known = vec![];
    for pq in PQS { let x = &v["known"][pq]; if !x.is_null() { known.push((pq.to_string(), json_quantity(x)?)); } }
    let mut unknown = vec![];
    for (k, x) in v["unknown"].as_object()? { unknown.push((k.clone(), json_quantity(x)?)); }
    unknown.sort_by(|a, b| a.0.cmp(&b.0));
    let mut other = vec![];
    for x in v["other"].as_array()? { other.push(json_quantity(x)?); }
    let no_unit = if v["no_unit"].is_null() { None } else { Some(json_quantity(&v["no_unit"])?) };
    Some(Parts { known, unknown, other, no_unit })
}

fn render_group(g: &GroupedQuantity) -> String {
    let Some(p) = parts(g) else { return "unrenderable".into() };
    let k: Vec<String> = p.known.iter().map(|(pq, q)| format!("{pq}:{}", render_quantity(q))).collect();
    let u: Vec<String> = p.unknown.iter().map(|(key, q)| format!("{}:{}", enc_text(key), render_quantity(q))).collect();
    let o: Vec<String> = p.other.iter().map(render_quantity).collect();
    let n = p.no_unit.as_ref().map(render_quantity).unwrap_or("-".into());
    format!("K[{}] U[{}] O[{}] N[{}]", k.join("|"), u.join("|"), o.join("|"), n)
}

fn render_list(l: &IngredientList) -> String {
    l.iter().map(|(name, g)| format!("{}={}", enc_text(name), render_group(g))).collect::<Vec<_>>().join(" ## ")
}

fn render_categorized(c: &CategorizedIngredientList) -> String {
    let mut out: Vec<String> = c.categories.iter().map(|(cat, l)| format!("[{}] {}", enc_text(cat), render_list(l))).collect();
    out.push(format!("[other] {}", render_list(&c.other)));
    out.join(" %% ")
}

fn render_values(g: &GroupedValue) -> String { g.iter().map(render_value).collect::<Vec<_>>().join(" ") }

fn spec_value(v: &Value) -> String { let q: ScaledQuantity = Quantity::new(v.clone(), None); spec_quantity(&q).trim_end_matches("@none").to_string() }

fn opt_text(s: Option<&str>) -> String { s.map(enc_text).unwrap_or("~".into()) }

fn spec_ingredient(i: &Ingredient<Value>) -> String {
    let rel = match i.relation.references_to() {
        Some((idx, t)) => format!("R{idx}:{}", match t { IngredientReferenceTarget::Ingredient => "i", IngredientReferenceTarget::Step => "s", IngredientReferenceTarget::Section => "t" }),
        None => format!("D{}", i.relation.referenced_from().iter().map(|x| x.to_string()).collect::<Vec<_>>().join(".")),
    };
    format!("{}!{}!{}!{}!{}", enc_text(&i.name), opt_text(i.alias.as_deref()), i.modifiers().bits(), rel,
        i.quantity.as_ref().map(spec_quantity).unwrap_or("none".into()))
}

fn spec_recipe(r: &ScaledRecipe) -> String {
    let mut s = format!("{}", r.ingredients.len());
    for i in &r.ingredients { s.push(' '); s.push_str(&spec_ingredient(i)); }
    s
}

// ---------------------------------------------------------------- the oracle's own bookkeeping

/// per class: (sum of the lower ends, sum of the upper ends, sum of magnitudes) ; texts verbatim
#[derive(Default, Clone, Debug)]
struct Totals { cls: BTreeMap<String, (f64, f64, f64)>, texts: Vec<String>, affine: bool }

impl Totals {
    fn add(&mut self, conv: &Converter, q: &ScaledQuantity) {
        let (lo, hi) = match q.value() {
            Value::Text(_) => { self.texts.push(render_quantity(q)); return; }
            Value::Number(n) => (n.value(), n.value()),
            Value::Range { start, end } => (start.value(), end.value()),
        };
        let (key, f) = match q.unit() {
            None => ("none".to_string(), 1.0),
            Some(u) => match conv.find_unit(u) {
                // sums of temperatures depend on the unit they are made in: the property's "sum of the inputs" is only
                // meaningful for units without an offset; affine classes are compared with the model only
                Some(unit) if unit.difference != 0.0 => { self.affine = true; return; }
                Some(unit) => (format!("k:{}", unit.physical_quantity), unit.ratio),
                None => (format!("u:{u}"), 1.0),
            },
        };
        let e = self.cls.entry(key).or_insert((0.0, 0.0, 0.0));
        e.0 += lo * f; e.1 += hi * f; e.2 += (lo.abs().max(hi.abs())) * f.abs();
    }
    fn of<'a>(conv: &Converter, qs: impl Iterator<Item = &'a ScaledQuantity>) -> Totals { let mut t = Totals::default(); for q in qs { t.add(conv, q); } t }
    fn join(&mut self, o: &Totals) {
        for (k, v) in &o.cls { let e = self.cls.entry(k.clone()).or_insert((0.0, 0.0, 0.0)); e.0 += v.0; e.1 += v.1; e.2 += v.2; }
        self.texts.extend(o.texts.iter().cloned()); self.affine |= o.affine;
    }
    /// first difference, if any
    fn diff(&self, got: &Totals) -> Option<String> {
        let keys: BTreeSet<&String> = self.cls.keys().chain(got.cls.keys()).collect();
        for k in keys {
            let a = self.cls.get(k).copied().unwrap_or((0.0, 0.0, 0.0));
            let b = got.cls.get(k).copied().unwrap_or((0.0, 0.0, 0.0));
            let tol = 1e-9 * a.2.max(b.2) + 1e-300;
            if !((a.0 - b.0).abs() <= tol && (a.1 - b.1).abs() <= tol) {
                return Some(format!("class {k}: the inputs sum to {:?}..{:?} (base units), the result holds {:?}..{:?}", a.0, a.1, b.0, b.1));
            }
        }
        let (mut x, mut y) = (self.texts.clone(), got.texts.clone()); x.sort(); y.sort();
        if x != y { return Some(format!("text values: put in {x:?}, found {y:?}")); }
        None
    }
}

fn finite(q: &ScaledQuantity) -> bool {
    let ok = |n: &Number| n.value().is_finite();
    match q.value() { Value::Number(n) => ok(n), Value::Range { start, end } => ok(start) && ok(end), Value::Text(_) => true }
}

// ---------------------------------------------------------------- generators: quantities

const KNOWN: [&str; 22] = ["ml", "l", "dl", "tsp", "tbsp", "c", "cup", "fl oz", "pint", "g", "kg", "mg", "oz", "lb", "gram", "pounds", "cm", "m", "mm", "in", "ft", "inch"];
const KNOWN_EXTRA: [&str; 6] = ["min", "h", "s", "°C", "°F", "C"];
const UNKNOWN: [&str; 4] = ["bunch", "pinch", "KG", "cloves"];
const TEXTS: [&str; 5] = ["a pinch", "some", "to taste", "", "1 or 2"];
const NICE: [f64; 18] = [0.125, 0.25, 1.0 / 3.0, 0.5, 0.75, 1.0, 1.5, 2.0, 2.5, 3.0, 4.0, 5.0, 10.0, 12.0, 100.0, 250.0, 500.0, 1000.0];

fn number(rng: &mut Rng) -> f64 {
    match rng.below(6) {
        0 | 1 => *rng.pick(&NICE),
        2 => *rng.pick(&NICE) * 10f64.powi(rng.range(-2, 3) as i32),
        3 => (rng.below(400) as f64) / 8.0,
        4 => 10f64.powf(rng.unit_f64() * 8.0 - 3.0),
        _ => if rng.chance(1, 6) { 0.0 } else { rng.unit_f64() * 100.0 },
    }
}

fn num(rng: &mut Rng, v: f64) -> Number {
    if rng.chance(1, 6) && v > 0.0 && v < 1e6 {
        let den = *rng.pick(&[1u32, 2, 3, 4, 8, 10, 16]);
        let whole = v.trunc() as u32;
        let n = if den == 1 { 0 } else { ((v.fract() * den as f64).floor() as u32).min(den - 1) };
        Number::Fraction { whole, num: n, den, err: v - (whole as f64 + n as f64 / den as f64) }
    } else { Number::Regular(v) }
}

fn value(rng: &mut Rng) -> Value {
    match rng.below(10) {
        0 => Value::Text(rng.pick(&TEXTS).to_string()),
        1 | 2 => { let a = number(rng); let b = a + number(rng); Value::Range { start: num(rng, a), end: num(rng, b) } }
        _ => { let v = number(rng); Value::Number(num(rng, v)) }
    }
}

/// `family` keeps a multiset inside few classes so that sums really happen
fn quantity(rng: &mut Rng, family: &[&'static str]) -> ScaledQuantity {
    let unit = match rng.below(12) {
        0 | 1 => None,
        2 => Some(rng.pick(&UNKNOWN).to_string()),
        3 if rng.chance(1, 3) => Some(rng.pick(&KNOWN_EXTRA).to_string()),
        _ => Some(rng.pick(family).to_string()),
    };
    Quantity::new(value(rng), unit)
}

fn family(rng: &mut Rng) -> Vec<&'static str> {
    let mut f: Vec<&'static str> = vec![];
    let n = 2 + rng.below(5);
    for _ in 0..n { f.push(*rng.pick(&KNOWN)); }
    if rng.chance(1, 3) { f.push(*rng.pick(&UNKNOWN)); }
    f
}

fn permutations<T: Clone>(xs: &[T]) -> Vec<Vec<T>> {
    if xs.len() <= 1 { return vec![xs.to_vec()]; }
    let mut out = vec![];
    for i in 0..xs.len() {
        let mut rest = xs.to_vec(); let x = rest.remove(i);
        for mut p in permutations(&rest) { p.insert(0, x.clone()); out.push(p); }
    }
    out
}

// ---------------------------------------------------------------- group / merge / fit

fn build_group(conv: &Converter, qs: &[ScaledQuantity]) -> GroupedQuantity {
    let mut g = GroupedQuantity::empty();
    for q in qs { g.add(q, conv); }
    g
}

fn show_qs(qs: &[ScaledQuantity]) -> String { format!("[{}]", qs.iter().map(|q| format!("{q:?}")).collect::<Vec<_>>().join(", ")) }

fn count_group(ctx: &mut Ctx, g: &GroupedQuantity) {
    if let Some(p) = parts(g) {
        ctx.count(&format!("group:known={}", p.known.len()));
        ctx.count(&format!("group:unknown={}", p.unknown.len().min(3)));
        if p.other.iter().any(|q| !q.value().is_text()) { ctx.count("group:numeric-parked-in-other"); }
        if p.other.iter().any(|q| q.value().is_text()) { ctx.count("group:text"); }
        if p.no_unit.is_some() { ctx.count("group:no-unit"); }
        for (_, q) in &p.known { match q.value() { Value::Range { .. } => ctx.count("group:known-range"), Value::Number(Number::Fraction { .. }) => ctx.count("group:known-fraction"), _ => {} } }
    }
}

/// `group qs…`: correspondence + conservation oracle; returns the totals found in the group
fn group_case(ctx: &mut Ctx, conv: &Converter, qs: &[ScaledQuantity], oracle: bool) -> Option<Totals> {
    let input = format!("GroupedQuantity::add of {} in this order", show_qs(qs));
    let g = match guarded(|| build_group(conv, qs)) {
        Ok(g) => g,
        Err(p) => { ctx.oracle_fail(input, format!("panic {p}"), panic_signature(&p)); return None; }
    };
    count_group(ctx, &g);
    let op = format!("gr group {}", qs.iter().map(spec_quantity).collect::<Vec<_>>().join(" "));
    ctx.case(op.trim_end().to_string(), render_group(&g), qs.len() > 1, input.clone());
    if !oracle { return None; }
    let want = Totals::of(conv, qs.iter());
    let got = Totals::of(conv, g.iter());
    if let Some(d) = want.diff(&got) { ctx.oracle_fail(input.clone(), d, "c10:add-conserves".into()); }
    // len / is_empty / into_vec agree with iter
    if g.len() != g.iter().count() || g.is_empty() != (g.iter().count() == 0) { ctx.oracle_fail(input, "len()/is_empty() disagree with iter()".into(), "c10:len".into()); }
    Some(got)
}

fn merge_case(ctx: &mut Ctx, conv: &Converter, a: &[ScaledQuantity], b: &[ScaledQuantity]) {
    let input = format!("group{} .merge( group{} )", show_qs(a), show_qs(b));
    let r = guarded(|| { let mut g = build_group(conv, a); let h = build_group(conv, b); g.merge(&h, conv); (g, h) });
    let (g, h) = match r { Ok(x) => x, Err(p) => { ctx.oracle_fail(input, format!("panic {p}"), panic_signature(&p)); return; } };
    count_group(ctx, &g);
    let op = format!("gr merge {} {} {}", a.len(), a.iter().map(spec_quantity).collect::<Vec<_>>().join(" "), b.iter().map(spec_quantity).collect::<Vec<_>>().join(" "));
    let op = op.split_whitespace().collect::<Vec<_>>().join(" ");
    ctx.case(op, render_group(&g), !a.is_empty() && !b.is_empty(), input.clone());
    let mut want = Totals::of(conv, a.iter()); want.join(&Totals::of(conv, b.iter()));
    if let Some(d) = want.diff(&Totals::of(conv, g.iter())) { ctx.oracle_fail(input.clone(), d, "c10:merge-conserves".into()); }
    // merging the groups holds what merging their own contents holds
    let mut want2 = Totals::of(conv, build_group(conv, a).iter()); want2.join(&Totals::of(conv, h.iter()));
    if let Some(d) = want2.diff(&Totals::of(conv, g.iter())) { ctx.oracle_fail(input, d, "c10:merge-conserves".into()); }
}

fn fit_case(ctx: &mut Ctx, conv: &Converter, qs: &[ScaledQuantity]) {
    let input = format!("group{} .fit()", show_qs(qs));
    let r = guarded(|| { let mut g = build_group(conv, qs); let res = g.fit(conv); (g, res) });
    let (g, res) = match r { Ok(x) => x, Err(p) => { ctx.oracle_fail(input, format!("panic {p}"), panic_signature(&p)); return; } };
    let head = match &res { Ok(()) => "ok".to_string(), Err(e) => format!("err {}", crate::props::c09::render_err(e)) };
    ctx.count(&format!("groupfit:{}", head.split(' ').next().unwrap()));
    if let Some(p) = parts(&g) { for (_, q) in &p.known { if let Value::Number(Number::Fraction { .. }) | Value::Range { start: Number::Fraction { .. }, .. } = q.value() { ctx.count("groupfit:fraction"); } } }
    let op = format!("gr groupfit {}", qs.iter().map(spec_quantity).collect::<Vec<_>>().join(" "));
    ctx.case(op.trim_end().to_string(), format!("{head} | {}", render_group(&g)), !qs.is_empty(), input.clone());
    if let Some(d) = Totals::of(conv, qs.iter()).diff(&Totals::of(conv, g.iter())) { ctx.oracle_fail(input, d, "c10:fit-conserves".into()); }
}

// ---------------------------------------------------------------- cookware amounts

fn gvalue_case(ctx: &mut Ctx, vs: &[Value]) {
    let input = format!("GroupedValue::add of {vs:?}");
    let g = match guarded(|| { let mut g = GroupedValue::empty(); for v in vs { g.add(v); } g }) {
        Ok(g) => g,
        Err(p) => { ctx.oracle_fail(input, format!("panic {p}"), panic_signature(&p)); return; }
    };
    let op = format!("gr gvalue {}", vs.iter().map(spec_value).collect::<Vec<_>>().join(" "));
    ctx.case(op.trim_end().to_string(), render_values(&g), vs.len() > 1, input.clone());
    let conv = Converter::empty();
    let as_q = |v: &Value| -> ScaledQuantity { Quantity::new(v.clone(), None) };
    let want = Totals::of(&conv, vs.iter().map(as_q).collect::<Vec<_>>().iter());
    let got = Totals::of(&conv, g.iter().map(as_q).collect::<Vec<_>>().iter());
    if let Some(d) = want.diff(&got) { ctx.oracle_fail(input, d, "c10:cookware-conserves".into()); }
}

// ---------------------------------------------------------------- recipes

const NAMES: [&str; 9] = ["flour", "tuna", "chicken of the sea", "olive oil", "salt", "eggs", "sauce", "dough", "Tuna"];
const ALIASES: [&str; 4] = ["white flour", "oil", "tuna", "fish"];
const PATHS: [&str; 8] = ["./sauces/tomato.cook", "../base/dough", "./a.b/c.d.e", "sub/stock.v2", ".hidden", "x/..", "./sauce", "pesto."];

fn qty_text(rng: &mut Rng) -> String {
    let val = match rng.below(9) {
        0 => rng.pick(&["some", "a pinch", "to taste"]).to_string(),
        1 => format!("{}-{}", rng.range(1, 5), rng.range(6, 12)),
        2 => format!("{}/{}", rng.range(1, 3), rng.pick(&[2, 3, 4, 8])),
        3 => format!("{} 1/{}", rng.range(1, 9), rng.pick(&[2, 3, 4])),
        4 => format!("{}.{}", rng.range(0, 20), rng.range(1, 99)),
        _ => format!("{}", rng.pick(&[1, 2, 3, 5, 10, 15, 30, 100, 150, 250, 500, 750, 1000, 1500])),
    };
    let lock = if rng.chance(1, 10) { "=" } else { "" };
    match rng.below(10) {
        0 | 1 => format!("{lock}{val}"),
        2 => format!("{lock}{val}%{}", rng.pick(&UNKNOWN)),
        _ => format!("{lock}{val}%{}", rng.pick(&KNOWN)),
    }
}

fn recipe_text(rng: &mut Rng) -> String {
    let mut s = String::new();
    if rng.chance(1, 8) { s.push_str(">> [duplicate]: reference\n\n"); }
    if rng.chance(1, 8) { s.push_str(">> servings: 2\n\n"); }
    let steps = 1 + rng.below(3);
    let mut defined: Vec<&str> = vec![];
    for si in 0..steps {
        let n = 1 + rng.below(4);
        for _ in 0..n {
            let name = *rng.pick(&NAMES);
            let q = if rng.chance(1, 7) { String::new() } else { qty_text(rng) };
            let comp = match rng.below(16) {
                0 | 1 | 2 if defined.contains(&name) => format!("@&{name}{{{q}}}"),
                0 if rng.chance(1, 5) => format!("@&{name}{{{q}}}"), // reference to something not defined: an error diagnostic
                3 => format!("@-{name}{{{q}}}"),
                4 => format!("@?{name}{{{q}}}"),
                5 => format!("@+{name}{{{q}}}"),
                6 => format!("@@{}{{{q}}}", rng.pick(&PATHS)),
                7 => format!("@{}{{{q}}}", rng.pick(&PATHS)),
                8 => format!("@{name}|{}{{{q}}}", rng.pick(&ALIASES)),
                12 => format!("@{name}|{}{{{q}}}", rng.pick(&NAMES)),   // alias = another ingredient's name: two definitions, one display name
                9 if si > 0 => format!("@&(~1){name}{{{q}}}"),
                10 => format!("@-?{name}{{{q}}}"),
                11 if name.split(' ').count() == 1 => format!("@{name}"),
                _ => format!("@{name}{{{q}}}"),
            };
            if !comp.starts_with("@&(") { defined.push(name); }
            s.push_str(&format!("Add {comp} and stir. "));
        }
        if rng.chance(1, 4) { s.push_str(&format!("Use a #pan{{{}}}. ", rng.range(1, 3))); }
        s.push_str("\n\n");
    }
    s
}

/// parse + scale; afterwards some quantities are replaced by generated ones (fractions with error, ranges, text with unit …)
fn make_recipe(rng: &mut Rng, parser: &CooklangParser, conv: &Converter, text: &str) -> Option<(ScaledRecipe, bool)> {
    // a recipe with error diagnostics may still come with an output (e.g. a reference without definition stays a
    // "definition" carrying REF): such recipes are outside the property ("valid recipes"), compared with the model only
    let pass = parser.parse(text);
    let valid = pass.is_valid();
    let recipe = pass.into_output()?;
    let mut scaled = match rng.below(5) { 0 => recipe.scale(2.0, conv), 1 => recipe.scale(0.5, conv), _ => recipe.default_scale() };
    if rng.chance(1, 3) {
        let fam = family(rng);
        for i in scaled.ingredients.iter_mut() { if rng.chance(1, 2) { i.quantity = if rng.chance(1, 8) { None } else { Some(quantity(rng, &fam)) }; } }
    }
    Some((scaled, valid))
}

/// what the recipe's own tables say, read from the reference side: quantity j belongs to its definition
fn owner(r: &ScaledRecipe, j: usize) -> Option<usize> {
    let i = &r.ingredients[j];
    match i.relation.references_to() {
        None => Some(j),
        Some((d, IngredientReferenceTarget::Ingredient)) => Some(d),
        Some(_) => None, // refers to a step or a section: stands for no ingredient
    }
}

/// model-only comparison for recipes that carry error diagnostics
fn recipes_corr_only(ctx: &mut Ctx, conv: &Converter, recipes: &[ScaledRecipe], texts: &[String], aisle_text: Option<&str>) {
    let input = format!("(recipes with error diagnostics) {texts:?}");
    ctx.count("list:with-error-diagnostics(model-only)");
    let rspec = recipes.iter().map(spec_recipe).collect::<Vec<_>>().join(" ");
    for r in recipes {
        match guarded(|| r.group_ingredients(conv).into_iter().map(|g| format!("{}:{}", g.index, render_group(&g.quantity))).collect::<Vec<_>>().join(" ## ")) {
            Ok(s) => ctx.case(format!("gr ingredients {}", spec_recipe(r)), s, true, input.clone()),
            Err(p) => { ctx.oracle_fail(input.clone(), format!("group_ingredients: panic {p}"), panic_signature(&p)); return; }
        }
    }
    let list = match guarded(|| { let mut l = IngredientList::new(); for r in recipes { l.add_recipe(r, conv); } l }) {
        Ok(l) => l,
        Err(p) => { ctx.oracle_fail(input.clone(), format!("add_recipe: panic {p}"), panic_signature(&p)); return; }
    };
    ctx.case(format!("gr list {rspec}"), render_list(&list), !list.is_empty(), input.clone());
    if let Some(a) = aisle_text { if let Ok(conf) = aisle::parse(a) {
        match guarded(|| list.categorize(&conf)) {
            Ok(c) => ctx.case(format!("gr catlist {} {rspec}", enc_text(a)), render_categorized(&c), true, input.clone()),
            Err(p) => ctx.oracle_fail(input, format!("categorize: panic {p}"), panic_signature(&p)),
        }
    } }
}

fn recipes_case(ctx: &mut Ctx, conv: &Converter, recipes: &[ScaledRecipe], texts: &[String], aisle_text: Option<&str>) {
    let input = format!("{}recipes {:?} (ingredient tables: {})", aisle_text.map(|a| format!("aisle {a:?}, ")).unwrap_or_default(), texts,
        recipes.iter().map(|r| r.ingredients.iter().map(|i| format!("{}{}{:?}", i.name, if i.relation.is_definition() { "=" } else { "&" }, i.quantity.as_ref().map(|q| q.to_string()))).collect::<Vec<_>>().join(",")).collect::<Vec<_>>().join(" | "));
    ctx.count(&format!("list:recipes={}", recipes.len()));
    // ---- per recipe: group_ingredients
    let mut expected: BTreeMap<String, Totals> = BTreeMap::new();
    for r in recipes {
        let grouped = match guarded(|| r.group_ingredients(conv).into_iter().map(|g| (g.index, g.quantity)).collect::<Vec<_>>()) {
            Ok(g) => g,
            Err(p) => { ctx.oracle_fail(input.clone(), format!("group_ingredients: panic {p}"), panic_signature(&p)); return; }
        };
        ctx.case(format!("gr ingredients {}", spec_recipe(r)), grouped.iter().map(|(i, g)| format!("{i}:{}", render_group(g))).collect::<Vec<_>>().join(" ## "),
            !grouped.is_empty(), input.clone());
        // the folded scaling outcome of every definition (model: foldOutcome, Num/IngListMore.lean)
        // (second pass: the same recipe read back from JSON with some outcomes rewritten to `error` / `fixed`, so that every arm of the fold is reached)
        let rewritten: Option<ScaledRecipe> = r.scaled_data().and_then(|_| serde_json::to_value(r).ok()).and_then(|mut j| {
            let a = j.get_mut("data")?.get_mut("ingredients")?.as_array_mut()?;
            let n = a.len();
            for (k, o) in a.iter_mut().enumerate() { match (k + n) % 4 { 0 => *o = serde_json::Value::String("error".into()), 1 => *o = serde_json::Value::String("fixed".into()), _ => {} } }
            serde_json::from_value(j).ok()
        });
        for r in std::iter::once(r).chain(rewritten.iter()) {
        if let Some(data) = r.scaled_data() {
            let name = |o: &cooklang::scale::ScaleOutcome| match o { cooklang::scale::ScaleOutcome::Scaled => "scaled", cooklang::scale::ScaleOutcome::Fixed => "fixed", cooklang::scale::ScaleOutcome::NoQuantity => "noQuantity", cooklang::scale::ScaleOutcome::Error(_) => "error" };
            if let Ok(gs) = guarded(|| r.group_ingredients(conv).into_iter().map(|g| (g.index, g.outcome.as_ref().map(name))).collect::<Vec<_>>()) {
                for (index, o) in gs {
                    let Some(o) = o else { continue };
                    let refs = r.ingredients[index].relation.referenced_from();
                    let mut toks: Vec<String> = vec!["gr".into(), "outcome".into(), index.to_string(), refs.len().to_string()];
                    toks.extend(refs.iter().map(|x| x.to_string()));
                    toks.extend(data.ingredients.iter().map(|o| name(o).to_string()));
                    ctx.count(&format!("grouped-outcome:{o}{}", if refs.is_empty() { "" } else { ":with-references" }));
                    ctx.case(toks.join(" "), o.to_string(), !refs.is_empty(), input.clone());
                }
            }
        }
        }
        // definitions, in recipe order
        let defs: Vec<usize> = (0..r.ingredients.len()).filter(|&j| r.ingredients[j].relation.is_definition()).collect();
        if grouped.iter().map(|g| g.0).collect::<Vec<_>>() != defs {
            ctx.oracle_fail(input.clone(), format!("group_ingredients lists indices {:?}, the definitions in recipe order are {defs:?}", grouped.iter().map(|g| g.0).collect::<Vec<_>>()), "c10:recipe-order".into());
            return;
        }
        // every quantity once, under its definition
        let mut per_def: BTreeMap<usize, Totals> = BTreeMap::new();
        for j in 0..r.ingredients.len() {
            let i = &r.ingredients[j];
            if i.relation.references_to().is_some() { ctx.count("ing:reference"); }
            if i.modifiers().is_hidden() { ctx.count("ing:hidden"); }
            if i.modifiers().is_optional() { ctx.count("ing:optional"); }
            if i.modifiers().is_recipe() { ctx.count("ing:recipe-ref"); }
            if i.alias.is_some() { ctx.count("ing:alias"); }
            if i.relation.is_intermediate_reference() { ctx.count("ing:intermediate-ref"); }
            if let (Some(q), Some(d)) = (&i.quantity, owner(r, j)) { per_def.entry(d).or_default().add(conv, q); }
        }
        for (d, g) in &grouped {
            let want = per_def.remove(d).unwrap_or_default();
            if let Some(diff) = want.diff(&Totals::of(conv, g.iter())) {
                ctx.oracle_fail(input.clone(), format!("ingredient #{d} ({}) with its references: {diff}", r.ingredients[*d].name), "c10:group-counts-once".into());
            }
            let i = &r.ingredients[*d];
            // listed = a definition that is not hidden (decided on the flag bits, not with should_be_listed())
            let hidden = i.modifiers().bits() & Modifiers::HIDDEN.bits() != 0;
            if !hidden { expected.entry(i.display_name().into_owned()).or_default().join(&want); ctx.count("ing:listed-definition"); }
            else { ctx.count("ing:unlisted-definition"); }
        }
        if let Some((d, _)) = per_def.iter().next() { ctx.oracle_fail(input.clone(), format!("quantities owned by ingredient #{d} are grouped nowhere"), "c10:group-counts-once".into()); }
    }
    // ---- the list
    let list = match guarded(|| { let mut l = IngredientList::new(); for r in recipes { l.add_recipe(r, conv); } l }) {
        Ok(l) => l,
        Err(p) => { ctx.oracle_fail(input.clone(), format!("add_recipe: panic {p}"), panic_signature(&p)); return; }
    };
    let rspec = recipes.iter().map(spec_recipe).collect::<Vec<_>>().join(" ");
    ctx.case(format!("gr list {rspec}"), render_list(&list), !list.is_empty(), input.clone());
    let got_names: Vec<&String> = list.iter().map(|(n, _)| n).collect();
    let want_names: Vec<&String> = expected.keys().collect();
    if got_names != want_names {
        ctx.oracle_fail(input.clone(), format!("listed names {got_names:?}; the listed (not hidden, not reference) definitions are {want_names:?}"), "c10:listed-names".into());
    }
    for (name, g) in list.iter() {
        if let Some(want) = expected.get(name) {
            if let Some(d) = want.diff(&Totals::of(conv, g.iter())) { ctx.oracle_fail(input.clone(), format!("list entry {name:?}: {d}"), "c10:list-conserves".into()); }
        }
    }
    // the one-recipe constructor must build the same list (same oracle, evaluated on its own result)
    if recipes.len() == 1 {
        match guarded(|| IngredientList::from_recipe(&recipes[0], conv)) {
            Err(p) => ctx.oracle_fail(input.clone(), format!("from_recipe: panic {p}"), panic_signature(&p)),
            Ok(l2) => {
                ctx.count("list:from_recipe");
                ctx.case(format!("gr fromrecipe {}", spec_recipe(&recipes[0])), render_list(&l2), !l2.is_empty(), input.clone());
                let got2: Vec<&String> = l2.iter().map(|(n, _)| n).collect();
                if got2 != want_names { ctx.oracle_fail(input.clone(), format!("from_recipe lists {got2:?}; the listed definitions are {want_names:?}"), "c10:listed-names".into()); }
                for (name, g) in l2.iter() {
                    if let Some(want) = expected.get(name) {
                        if let Some(d) = want.diff(&Totals::of(conv, g.iter())) { ctx.oracle_fail(input.clone(), format!("from_recipe: list entry {name:?}: {d}"), "c10:list-conserves".into()); }
                    }
                }
            }
        }
    }
    // ---- split by aisle
    let Some(aisle_text) = aisle_text else { return };
    let Ok(conf) = aisle::parse(aisle_text) else { ctx.count("aisle:rejected"); return };
    let info = conf.ingredients_info();
    let mut want: BTreeMap<(Option<String>, String), Totals> = BTreeMap::new();
    let mut shared = false;
    for (name, g) in list.iter() {
        let key = match info.get(name.as_str()) { Some(i) => (Some(i.category.to_string()), i.common_name.to_string()), None => (None, name.clone()) };
        if want.contains_key(&key) { shared = true; }
        want.entry(key).or_default().join(&Totals::of(conv, g.iter()));
    }
    if shared { ctx.count("aisle:two-listed-names-share-a-common-name"); }
    ctx.count(if info.is_empty() { "aisle:empty" } else { "aisle:some" });
    let cat = match guarded(|| list.categorize(&conf)) {
        Ok(c) => c,
        Err(p) => { ctx.oracle_fail(input.clone(), format!("categorize: panic {p}"), panic_signature(&p)); return; }
    };
    ctx.case(format!("gr catlist {} {rspec}", enc_text(aisle_text)), render_categorized(&cat), !want.is_empty(), input.clone());
    categorized_oracle(ctx, conv, &input, &want, &cat, shared);
}

fn categorized_oracle(ctx: &mut Ctx, conv: &Converter, input: &str, want: &BTreeMap<(Option<String>, String), Totals>, cat: &CategorizedIngredientList, shared: bool) {
    let sig = if shared { "c10:categorize-shared-common-name" } else { "c10:categorize-conserves" };
    let mut got: BTreeMap<(Option<String>, String), Totals> = BTreeMap::new();
    for (c, l) in &cat.categories { for (n, g) in l.iter() { got.insert((Some(c.clone()), n.clone()), Totals::of(conv, g.iter())); } }
    for (n, g) in cat.other.iter() { got.insert((None, n.clone()), Totals::of(conv, g.iter())); }
    let keys: BTreeSet<&(Option<String>, String)> = want.keys().chain(got.keys()).collect();
    for k in keys {
        let (a, b) = (want.get(k).cloned().unwrap_or_default(), got.get(k).cloned().unwrap_or_default());
        if !want.contains_key(k) || !got.contains_key(k) {
            ctx.oracle_fail(input.into(), format!("category {:?}, name {:?}: {}", k.0.as_deref().unwrap_or("other"), k.1, if got.contains_key(k) { "appears without a listed ingredient behind it" } else { "is missing" }), sig.into());
        } else if let Some(d) = a.diff(&b) {
            ctx.oracle_fail(input.into(), format!("category {:?}, name {:?}: {d}", k.0.as_deref().unwrap_or("other"), k.1), sig.into());
        }
    }
}

/// `cat`: a list built with add_ingredient, then categorize
fn cat_case(ctx: &mut Ctx, conv: &Converter, aisle_text: &str, entries: &[(String, Vec<ScaledQuantity>)]) {
    let input = format!("aisle {aisle_text:?}, add_ingredient of {}", entries.iter().map(|(n, qs)| format!("{n:?} {}", show_qs(qs))).collect::<Vec<_>>().join(" ; "));
    let Ok(conf) = aisle::parse(aisle_text) else { ctx.count("aisle:rejected"); return };
    let r = guarded(|| {
        let mut l = IngredientList::new();
        for (n, qs) in entries { l.add_ingredient(n.clone(), &build_group(conv, qs), conv); }
        let image = render_list(&l);
        let per_name: Vec<(String, Totals)> = l.iter().map(|(n, g)| (n.clone(), Totals::of(conv, g.iter()))).collect();
        (image, per_name, l.categorize(&conf))
    });
    let (_image, per_name, cat) = match r { Ok(x) => x, Err(p) => { ctx.oracle_fail(input, format!("panic {p}"), panic_signature(&p)); return; } };
    let op = format!("gr cat {} {} {}", enc_text(aisle_text), entries.len(),
        entries.iter().map(|(n, qs)| format!("{} {} {}", enc_text(n), qs.len(), qs.iter().map(spec_quantity).collect::<Vec<_>>().join(" "))).collect::<Vec<_>>().join(" "));
    let op = op.split_whitespace().collect::<Vec<_>>().join(" ");
    ctx.case(op, render_categorized(&cat), !entries.is_empty(), input.clone());
    // list entries conserve what was added under the name
    let mut by_name: BTreeMap<String, Totals> = BTreeMap::new();
    for (n, qs) in entries { by_name.entry(n.clone()).or_default().join(&Totals::of(conv, qs.iter())); }
    for (n, t) in &per_name { if let Some(d) = by_name.get(n).cloned().unwrap_or_default().diff(t) { ctx.oracle_fail(input.clone(), format!("list entry {n:?}: {d}"), "c10:list-conserves".into()); } }
    let info = conf.ingredients_info();
    let mut want: BTreeMap<(Option<String>, String), Totals> = BTreeMap::new();
    let mut shared = false;
    for (name, t) in &per_name {
        let key = match info.get(name.as_str()) { Some(i) => (Some(i.category.to_string()), i.common_name.to_string()), None => (None, name.clone()) };
        if want.contains_key(&key) { shared = true; }
        want.entry(key).or_default().join(t);
    }
    if shared { ctx.count("aisle:two-listed-names-share-a-common-name"); }
    categorized_oracle(ctx, conv, &input, &want, &cat, shared);
}

fn aisle_text(rng: &mut Rng) -> String {
    let mut s = String::new();
    let mut names: Vec<&str> = NAMES.iter().copied().chain(ALIASES.iter().copied()).chain(["tomato", "dough", "c.d", "stock", "pesto", "bread"]).collect();
    names.sort(); names.dedup();
    rng.shuffle(&mut names);
    let mut k = 0;
    for c in 0..rng.below(4) {
        s.push_str(&format!("[{}]\n", ["canned", "pantry", "dairy", "bakery"][c]));
        for _ in 0..rng.below(4) {
            let n = 1 + rng.below(3);
            let line: Vec<&str> = (0..n).filter_map(|_| { k += 1; names.get(k - 1).copied() }).collect();
            if line.is_empty() { continue; }
            s.push_str(&line.join(if rng.chance(1, 5) { " | " } else { "|" })); s.push('\n');
        }
        if rng.chance(1, 4) { s.push('\n'); }
    }
    if rng.chance(1, 30) { s.push_str("tuna\n"); } // duplicate / no category: rejected
    s
}

// ---------------------------------------------------------------- corpus: `<aisle file>` ==== `<recipe>` ---- `<recipe>` …

fn corpus_cases(ctx: &mut Ctx, conv: &Converter, parser: &CooklangParser) {
    let root = std::env::var("VERIF_ROOT").unwrap_or_else(|_| "/verif".into());
    let Ok(dir) = std::fs::read_dir(format!("{root}/corpus/C10")) else { return };
    let mut files: Vec<_> = dir.filter_map(|e| e.ok()).map(|e| e.path()).collect();
    files.sort();
    for f in files {
        let Ok(text) = std::fs::read_to_string(&f) else { continue };
        let (a, rest) = text.split_once("====\n").unwrap_or(("", &text));
        let texts: Vec<String> = rest.split("----\n").map(|s| s.to_string()).collect();
        let recipes: Vec<ScaledRecipe> = texts.iter().filter_map(|t| parser.parse(t).into_result().ok().map(|r| r.0.default_scale())).collect();
        if recipes.len() != texts.len() { ctx.notes.push(format!("corpus file {f:?}: a recipe does not parse")); continue; }
        ctx.count("corpus");
        recipes_case(ctx, conv, &recipes, &texts, Some(a));
    }
}

// ---------------------------------------------------------------- invalid tables (outside the property's premise): panic sites compared with the model

fn malformed_case(ctx: &mut Ctx, rng: &mut Rng, conv: &Converter, r: &ScaledRecipe) {
    let Ok(mut v) = serde_json::to_value(r) else { return };
    let n = r.ingredients.len();
    if n == 0 { return; }
    let j = rng.below(n);
    let ing = &mut v["ingredients"][j];
    match rng.below(3) {
        0 => { ing["relation"] = serde_json::json!({"type": "definition", "referenced_from": [rng.below(n + 2), rng.below(n + 2)], "defined_in_step": true, "reference_target": null}); }
        1 => { ing["relation"] = serde_json::json!({"type": "reference", "references_to": rng.below(n + 2), "reference_target": "ingredient"}); }
        _ => { ing["modifiers"] = serde_json::json!(*rng.pick(&["", "HIDDEN", "REF", "RECIPE", "OPT | HIDDEN", "NEW"])); }
    }
    let Ok(bad) = serde_json::from_value::<ScaledRecipe>(v) else { ctx.count("malformed:not-deserializable"); return };
    let input = format!("hand-made ingredient table {}", spec_recipe(&bad));
    let r = guarded(|| bad.group_ingredients(conv).into_iter().map(|g| format!("{}:{}", g.index, render_group(&g.quantity))).collect::<Vec<_>>().join(" ## "));
    ctx.count(if r.is_ok() { "malformed:ok" } else { "malformed:panic" });
    ctx.case(format!("gr ingredients {}", spec_recipe(&bad)), r.unwrap_or_else(|_| "PANIC".into()), true, input);
}

// ---------------------------------------------------------------- run

pub fn run(ctx: &mut Ctx) {
    ctx.rule = "corpus first (aisle file + recipes). GroupedQuantity: multisets of quantities over volume/mass/length keys (symbols, names, aliases), time and temperature, \
unknown units, unit-less, text (with and without unit), ranges, fractions with error, zero: every permutation for sizes <= 5, random orders up to size 12; merge of two groups; fit of a group; \
GroupedValue (cookware amounts). Recipes from templates through the real parser (references &, hidden -, optional ?, new +, recipe references @ and ./paths, aliases, \
intermediate references, [duplicate]: reference, single-word), default_scale / scale(2) / scale(0.5), some quantities replaced by generated ones; 1-4 recipes per list; \
group_ingredients, IngredientList::add_recipe, categorize with aisle files over the same names (synonym lines that collide with listed names); lists built with add_ingredient; \
display_name on path-like names; hand-made invalid tables (index out of range, reference to reference) compared with the model's panic values. \
non-trivial = more than one quantity / a non-empty list; distinct = distinct request lines. Oracle sums are in base units per class (tolerance 1e-9 relative to the summed magnitudes); \
temperature totals (units with an offset) are compared with the model only".into();
    let conv = Converter::bundled();
    let parser = CooklangParser::new(Extensions::all(), conv.clone());
    let mut rng = Rng::new(ctx.seed ^ 0xC10);
    if ctx.model().one("cv b wf") != "true" { ctx.notes.push("the generated converter description is not well formed (model refuses to run)".into()); }

    corpus_cases(ctx, &conv, &parser);

    // ---- groups: all permutations of small multisets
    let n_small = if ctx.thorough { 18_000 } else { 700 };
    for _ in 0..n_small {
        let fam = family(&mut rng);
        let n = 1 + rng.below(5);
        let qs: Vec<ScaledQuantity> = (0..n).map(|_| quantity(&mut rng, &fam)).collect();
        if !qs.iter().all(finite) { continue; }
        ctx.count(&format!("multiset:size={n}"));
        let mut first: Option<Totals> = None;
        for p in permutations(&qs) {
            let Some(t) = group_case(ctx, &conv, &p, true) else { continue };
            match &first {
                None => first = Some(t),
                Some(f) => if let Some(d) = f.diff(&t) { ctx.oracle_fail(format!("GroupedQuantity::add of {} vs the order {}", show_qs(&qs), show_qs(&p)), format!("totals depend on the order: {d}"), "c10:add-order".into()); }
            }
        }
    }
    // ---- larger multisets, random orders
    for _ in 0..(if ctx.thorough { 150_000 } else { 4000 }) {
        let fam = family(&mut rng);
        let n = 6 + rng.below(7);
        let mut qs: Vec<ScaledQuantity> = (0..n).map(|_| quantity(&mut rng, &fam)).collect();
        ctx.count("multiset:size>5");
        let mut first: Option<Totals> = None;
        for _ in 0..3 {
            rng.shuffle(&mut qs);
            let Some(t) = group_case(ctx, &conv, &qs, true) else { continue };
            match &first {
                None => first = Some(t),
                Some(f) => if let Some(d) = f.diff(&t) { ctx.oracle_fail(format!("GroupedQuantity::add of {} in two orders", show_qs(&qs)), format!("totals depend on the order: {d}"), "c10:add-order".into()); }
            }
        }
    }
    // ---- merge, fit
    for _ in 0..(if ctx.thorough { 250_000 } else { 6000 }) {
        let fam = family(&mut rng);
        let a: Vec<ScaledQuantity> = (0..rng.below(6)).map(|_| quantity(&mut rng, &fam)).collect();
        let b: Vec<ScaledQuantity> = (0..rng.below(6)).map(|_| quantity(&mut rng, &fam)).collect();
        merge_case(ctx, &conv, &a, &b);
        if rng.chance(1, 2) { fit_case(ctx, &conv, &a); }
    }
    // values that become fractions when fitted: simple fractions of imperial units
    for u in ["c", "tsp", "tbsp", "lb", "oz", "in", "ft", "fl oz", "pint"] {
        for x in NICE { for y in [0.0, 0.25, 1.0 / 3.0] {
            let qs: Vec<ScaledQuantity> = vec![Quantity::new(Value::Number(Number::Regular(x)), Some(u.to_string())), Quantity::new(Value::Number(Number::Regular(y)), Some(u.to_string()))];
            fit_case(ctx, &conv, &qs);
        } }
    }
    // amounts around 2^31, 2^32 and u32::MAX, where the whole part of a fraction saturates: sums that cross the limit, in units shown as fractions and in metric ones
    const HUGE: [f64; 12] = [2147483648.5, 2147483648.0, 4000000000.25, 500000000.5, 4294967294.5, 4294967295.0, 4294967295.5, 4294967296.0, 4294967296.5, 8589934592.25, 1e12, 4294967293.75];
    for u in ["cup", "c", "lb", "oz", "tsp", "in", "g", "ml", "kg"] {
        for (i, x) in HUGE.iter().enumerate() { for y in HUGE.iter().skip(i).chain([0.5, 1.0, 0.0].iter()) {
            let qs: Vec<ScaledQuantity> = vec![Quantity::new(Value::Number(Number::Regular(*x)), Some(u.to_string())), Quantity::new(Value::Number(Number::Regular(*y)), Some(u.to_string()))];
            ctx.count("group:amounts-near-u32-limit");
            group_case(ctx, &conv, &qs, true);
            fit_case(ctx, &conv, &qs);
            if *y < 1.5 { fit_case(ctx, &conv, &qs[..1]); }
        } }
    }
    // ---- cookware amounts
    for _ in 0..(if ctx.thorough { 100_000 } else { 3000 }) {
        let vs: Vec<Value> = (0..rng.below(7)).map(|_| if rng.chance(1, 4) { Value::Text(rng.pick(&["big", "small", ""]).to_string()) } else { value(&mut rng) }).collect();
        gvalue_case(ctx, &vs);
    }
    // ---- display names
    if let Some(r) = parser.parse("@@x{}").into_output() {
        let base = r.default_scale();
        let plain = parser.parse("@x{}").into_output().map(|r| r.default_scale());
        let odd = ["a/b.c", "..", ".", "./x", "a/..", ".hidden", "a.b.c", "", "/", "a/", "a//b/", "x.", "...", "a/.", "./.", "é.ü", "a/./", "/a/b.tar.gz", "..a", "a..", ".a.", "a/b/../c.d", "\\x.y", "a b.c d", "x/.y"];
        for name in odd.iter().map(|s| s.to_string()).chain(PATHS.iter().map(|s| s.to_string())) {
            for alias in [None, Some("al".to_string())] {
                for src in [Some(&base), plain.as_ref()].into_iter().flatten() {
                    let mut i = src.ingredients[0].clone();
                    i.name = name.clone(); i.alias = alias.clone();
                    let input = format!("display_name of name {name:?} alias {alias:?} modifiers {:?}", i.modifiers());
                    match guarded(|| i.display_name().into_owned()) {
                        Ok(d) => ctx.case(format!("gr display {} {} {}", enc_text(&name), opt_text(alias.as_deref()), i.modifiers().bits()), enc_text(&d), true, input),
                        Err(p) => ctx.oracle_fail(input, format!("panic {p}"), panic_signature(&p)),
                    }
                }
            }
        }
    }
    // ---- recipes, lists, aisles
    let mut parsed = 0u64;
    for _ in 0..(if ctx.thorough { 200_000 } else { 6000 }) {
        let k = 1 + rng.below(4);
        let mut texts = vec![]; let mut recipes = vec![]; let mut all_valid = true;
        for _ in 0..k {
            let t = recipe_text(&mut rng);
            match make_recipe(&mut rng, &parser, &conv, &t) { Some((r, valid)) => { texts.push(t); recipes.push(r); all_valid &= valid; } None => ctx.count("recipe:rejected-by-the-parser") }
        }
        if recipes.is_empty() { continue; }
        parsed += 1;
        let a = if rng.chance(2, 3) { Some(aisle_text(&mut rng)) } else { None };
        if all_valid { recipes_case(ctx, &conv, &recipes, &texts, a.as_deref()); } else { recipes_corr_only(ctx, &conv, &recipes, &texts, a.as_deref()); }
        if rng.chance(1, 6) { malformed_case(ctx, &mut rng.fork(7), &conv, &recipes[0]); }
    }
    ctx.count_n("recipe:lists", parsed);
    // ---- lists built directly
    for _ in 0..(if ctx.thorough { 120_000 } else { 4000 }) {
        let a = aisle_text(&mut rng);
        let fam = family(&mut rng);
        let entries: Vec<(String, Vec<ScaledQuantity>)> = (0..rng.below(6)).map(|_| {
            let name = if rng.chance(1, 2) { rng.pick(&NAMES).to_string() } else { rng.pick(&ALIASES).to_string() };
            (name, (0..rng.below(5)).map(|_| quantity(&mut rng, &fam)).collect())
        }).collect();
        if entries.iter().all(|(_, qs)| qs.iter().all(finite)) { cat_case(ctx, &conv, &a, &entries); }
    }
}
