//! C05 No recipe content is silently dropped.
use crate::ctx::Ctx;
use crate::props::c04::event_spans;
use crate::render::*;
use crate::util::{enc_text, guarded};
use cooklang::parser::{Event, PullParser};
use cooklang::Extensions;

pub fn one(ctx: &mut Ctx, input: &str, ext_bits: u32) {
    let ext = Extensions::from_bits_retain(ext_bits);
    let desc = format!("ext={ext_bits} input={input:?}");
    let Ok(evs) = guarded(|| PullParser::new(input, ext).collect::<Vec<_>>()) else { ctx.count("panicked (judged by C03)"); return };
    ctx.case(format!("events {ext_bits} {}", enc_text(input)), r_events(&evs), evs.len() > 2, desc.clone());
    if evs.iter().any(|e| matches!(e, Event::Error(_))) { ctx.count("has-error-event (premise false)"); return; }
    ctx.count("no-error-event");
    // covered bytes = union of the spans of content events
    let mut covered = vec![false; input.len() + 1];
    for e in &evs {
        let mut spans = Vec::new(); let mut frags = Vec::new();
        match e {
            Event::Error(_) | Event::Warning(_) => continue,
            Event::Metadata { key, value } => spans.push(("meta".to_string(), cooklang::Span::from(key.span().start()..value.span().end()))),
            _ => event_spans(e, &mut spans, &mut frags),
        }
        for (_, s) in spans { for i in s.start()..s.end().min(input.len()) { covered[i] = true; } }
    }
    // comment bytes from the real lexer's own token stream
    let mut comment = vec![false; input.len() + 1];
    for (k, a, b) in cooklang::parser::verif_tokens(input) { if k == "LineComment" || k == "BlockComment" { for i in a..b.min(input.len()) { comment[i] = true; } } }
    for (i, c) in input.char_indices() {
        if c.is_alphanumeric() && !comment[i] && !covered[i] {
            ctx.oracle_fail(desc, format!("character {c:?} at byte {i} is outside every event span although the event stream has no error"), "c05:dropped".into());
            return;
        }
    }
}

pub fn run(ctx: &mut Ctx) {
    ctx.rule = "inputs as C04 (corpus, exhaustive short token strings, soups, structured recipes, mutations) plus fence-shaped lines at every line position; all 256 extension patterns; for inputs whose event stream has no error event: every alphanumeric char outside comment tokens must lie in the span of a text/ingredient/cookware/timer/metadata/section/front-matter event; events are also compared with the model. non-trivial = more than Start/End events".into();
    crate::props::c04::inputs(ctx, 0xC05, &mut |ctx, s, e| one(ctx, s, e));
    let mut rng = crate::rng::Rng::new(ctx.seed ^ 0xC05F);
    let n = if ctx.thorough { 100_000 } else { 4_000 };
    for i in 0..n {
        // fences at arbitrary line positions
        let mut lines: Vec<String> = (0..1 + rng.below(6)).map(|_| match rng.below(4) { 0 => "---".to_string(), 1 => crate::gen::word(&mut rng), 2 => String::new(), _ => crate::gen::step(&mut rng) }).collect();
        if rng.chance(1, 3) { lines.insert(0, String::new()); }
        one(ctx, &lines.join("\n"), crate::gen::ext_pattern(i % 256));
    }
}
