//! C05 No recipe content is silently dropped.
use crate::ctx::Ctx;
use crate::props::c04::event_spans;
use crate::render::*;
use crate::util::{enc_text, guarded};
use cooklang::parser::{Event, PullParser};
use cooklang::Extensions;

pub fn one(ctx: &mut Ctx, input: &str, ext_bits: u32) {
    let ext = Extensions::from_bits_retain(ext_bits);
    let desc = format!("ext={ext_bits} input={input:?}");
    let Ok(evs) = guarded(|| PullParser::new(input, ext).collect::<Vec<_>>()) else { ctx.count("panicked (judged by C03)"); return };
    ctx.case(format!("events {ext_bits} {}", enc_text(input)), r_events(&evs), evs.len() > 2, desc.clone());
    scanner_vs_lexer(ctx, input);
    if evs.iter().any(|e| matches!(e, Event::Error(_))) { ctx.count("has-error-event (premise false)"); return; }
    ctx.count("no-error-event");
    // covered bytes = union of the spans of content events
    let mut covered = vec![false; input.len() + 1];
    for e in &evs {
        let mut spans = Vec::new(); let mut frags = Vec::new();
        match e {
            Event::Error(_) | Event::Warning(_) => continue,
            Event::Metadata { key, value } => spans.push(("meta".to_string(), cooklang::Span::from(key.span().start()..value.span().end()))),
            _ => event_spans(e, &mut spans, &mut frags),
        }
        for (_, s) in spans { for i in s.start()..s.end().min(input.len()) { covered[i] = true; } }
    }
    // comment bytes: the INDEPENDENT character-level scanner over the cooklang body (it is compared with the
    // lexer's comment tokens in `scanner_vs_lexer`; the two are proved equal on the model, `C05_comment_scanner_agrees`)
    let mut comment = vec![false; input.len() + 1];
    if let Some(first) = cooklang::parser::verif_tokens(input).first() {
        let body_start = first.1;
        for (i, f) in comment_scan(&input[body_start..]).into_iter().enumerate() { comment[body_start + i] = f; }
    }
    for (i, c) in input.char_indices() {
        if c.is_alphanumeric() && !comment[i] && !covered[i] {
            ctx.oracle_fail(desc, format!("character {c:?} at byte {i} is outside every event span although the event stream has no error"), "c05:dropped".into());
            return;
        }
    }
    // FRAGMENT level (`C05_fragments_as_worded`, stronger than the property, hence counted and printed, never a
    // violation): every letter or digit outside comments lies inside ONE fragment of a text an event carries, or
    // inside the span of a component's modifiers or of its quantity value (a text value has no fragments in the
    // implementation's event: its span is taken).
    let mut carried = vec![false; input.len() + 1];
    for e in &evs {
        let mut spans = Vec::new(); let mut frags = Vec::new();
        if matches!(e, Event::Error(_) | Event::Warning(_)) { continue; }
        event_spans(e, &mut spans, &mut frags);
        for (off, text) in frags { for i in off..(off + text.len()).min(input.len()) { carried[i] = true; } }
        for (what, s) in spans {
            if what.ends_with(".modifiers") || what.ends_with("quantity.value") {
                for i in s.start()..s.end().min(input.len()) { carried[i] = true; }
            }
        }
    }
    match input.char_indices().find(|&(i, c)| c.is_alphanumeric() && !comment[i] && !carried[i]) {
        None => ctx.count("fragment level: every letter/digit outside comments is carried by an event"),
        Some((i, c)) => {
            ctx.count("FRAGMENT-LEVEL-NOT-CARRIED (model theorem C05_fragments_as_worded says this cannot happen)");
            eprintln!("c05: fragment level: {c:?} at byte {i} is in no fragment / modifiers / value span: {desc}");
        }
    }
}

/// The independent comment scanner of `Lemmas/CoverAudit.lean` (`cscan`): one flag per byte of `body`.
/// A backslash protects the next char; `--` runs up to (not including) the next LF; `[-` runs up to and
/// including the first `-]` after it, or to the end.
pub fn comment_scan(body: &str) -> Vec<bool> {
    #[derive(Clone, Copy, PartialEq)]
    enum St { Normal, Esc, Line1, Line, Block1, Block, BlockEnd }
    let chars: Vec<(usize, char)> = body.char_indices().collect();
    let mut out = vec![false; body.len()];
    let mut st = St::Normal;
    for (k, &(i, c)) in chars.iter().enumerate() {
        let next = chars.get(k + 1).map(|p| p.1);
        let (flag, st2) = match st {
            St::Normal => {
                if c == '\\' { (false, St::Esc) }
                else if c == '-' && next == Some('-') { (true, St::Line1) }
                else if c == '[' && next == Some('-') { (true, St::Block1) }
                else { (false, St::Normal) }
            }
            St::Esc => (false, St::Normal),
            St::Line1 => (true, St::Line),
            St::Line => if c == '\n' { (false, St::Normal) } else { (true, St::Line) },
            St::Block1 => (true, St::Block),
            St::Block => if c == '-' && next == Some(']') { (true, St::BlockEnd) } else { (true, St::Block) },
            St::BlockEnd => (true, St::Normal),
        };
        for b in i..i + c.len_utf8() { out[b] = flag; }
        st = st2;
    }
    out
}

/// `C05_comment_scanner_agrees` on the real lexer: the bytes of its LineComment/BlockComment tokens are
/// exactly the bytes the independent scanner flags in the cooklang body.
fn scanner_vs_lexer(ctx: &mut Ctx, input: &str) {
    let toks = cooklang::parser::verif_tokens(input);
    let Some(first) = toks.first() else { return };
    let body_start = first.1;
    let scan = comment_scan(&input[body_start..]);
    let mut lexer = vec![false; input.len() - body_start];
    for (k, a, b) in &toks { if k == "LineComment" || k == "BlockComment" { for i in *a..(*b).min(input.len()) { lexer[i - body_start] = true; } } }
    ctx.count("comment-scanner compared with lexer");
    if scan.iter().any(|&f| f) { ctx.count("comment-scanner: input has a comment"); }
    if let Some(i) = (0..scan.len()).find(|&i| scan[i] != lexer[i]) {
        // not a violation of the property by itself: recorded so that the evidence shows whether the
        // lexer's notion of comment (used by the oracle below) is the independent one
        ctx.count("COMMENT-SCANNER-DISAGREES-WITH-LEXER");
        eprintln!("c05: comment scanner and lexer disagree at byte {} of {input:?}", body_start + i);
    }
}

/// Side conditions of the C05 theorems on the character tables, over ALL Unicode scalar values:
/// `AlnumSpec` (a letter or digit is neither `char::is_whitespace` nor lexer whitespace and none of
/// `> = \ LF CR -`) and `CommentSpec` (lexer whitespace and word characters contain none of `\ - [`).
fn charspec_side_conditions(ctx: &mut Ctx) {
    let mut bad: Option<(char, &str)> = None;
    for cp in 0u32..=0x10FFFF {
        let Some(c) = char::from_u32(cp) else { continue };
        if !c.is_alphanumeric() { continue; }
        if c.is_whitespace() || ">=\\\n\r-".contains(c) || crate::chartable::class_bits(c) & 1 != 0 { bad = Some((c, "AlnumSpec")); break; }
    }
    for c in ['\\', '-', '['] { if crate::chartable::class_bits(c) & 5 != 0 { bad = Some((c, "CommentSpec")); } }
    match bad {
        None => ctx.count("charspec side conditions (AlnumSpec, CommentSpec) hold for all scalar values"),
        Some((c, which)) => { ctx.count("CHARSPEC-SIDE-CONDITION-VIOLATED"); eprintln!("c05: {which} fails for {c:?}: the C05 theorems do not apply to this character table"); }
    }
}

pub fn run(ctx: &mut Ctx) {
    charspec_side_conditions(ctx);
    ctx.rule = "inputs as C04 (corpus, exhaustive short token strings, soups, structured recipes, mutations) plus fence-shaped lines at every line position and comment-shaped soups (backslash, -, [, ], LF, CR, …); all 256 extension patterns; for inputs whose event stream has no error event: every alphanumeric char not flagged by the independent character-level comment scanner (compared with the lexer's comment tokens on every case) must lie in the span of a text/ingredient/cookware/timer/metadata/section/front-matter event; events are also compared with the model. non-trivial = more than Start/End events".into();
    crate::props::c04::inputs(ctx, 0xC05, &mut |ctx, s, e| one(ctx, s, e));
    let mut rng = crate::rng::Rng::new(ctx.seed ^ 0xC05F);
    let n = if ctx.thorough { 100_000 } else { 4_000 };
    for i in 0..n {
        // fences at arbitrary line positions
        let mut lines: Vec<String> = (0..1 + rng.below(6)).map(|_| match rng.below(5) { 0 => "---".to_string(), 1 => crate::gen::word(&mut rng), 2 => String::new(), 3 => rng.pick_str(&["---- x", "---- Title ----", "--- a", "----", "---x", " ---", "--- ", "-- -", "---\t"]).to_string(), _ => crate::gen::step(&mut rng) }).collect();
        if rng.chance(1, 3) { lines.insert(0, String::new()); }
        one(ctx, &lines.join("\n"), crate::gen::ext_pattern(i % 256));
    }
    // comment-shaped soups: escapes before `--` / `[-`, unclosed and `[-]` block comments, comments before a line
    // feed, CRLF — what the independent comment scanner and the lexer must agree on
    let mut rng = crate::rng::Rng::new(ctx.seed ^ 0xC05C);
    let n = if ctx.thorough { 100_000 } else { 3_000 };
    for i in 0..n {
        let len = 1 + rng.below(9);
        let s: String = (0..len).map(|_| *rng.pick(&['\\', '-', '-', '[', ']', '\n', '\r', 'a', '1', ' ', '@', '{', '}', '>', ':', 'é'])).collect();
        one(ctx, &s, crate::gen::ext_pattern(i % 256));
    }
}
