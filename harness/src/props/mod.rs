pub mod c12;
pub mod c09;
pub mod c04;
pub mod c06;
pub mod c11;
pub mod c01;
pub mod c07;
