pub mod c12;
pub mod c04;
#[cfg(feature = "ffi")]
pub mod c19;
