pub mod c12;
#[cfg(feature = "ffi")]
pub mod c19;
