pub mod c12;
pub mod c04;
pub mod c15;
#[cfg(feature = "ffi")]
pub mod c19;
