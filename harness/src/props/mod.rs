pub mod c12;
pub mod c04;
pub mod c13;
