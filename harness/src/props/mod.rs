pub mod c12;
pub mod c16;
