pub mod c12;
