pub mod c12;
pub mod c09;
pub mod c08;
pub mod c04;
