//! C11 Aisle configuration parsing is total, duplicate-free and round-trips.
use crate::ctx::Ctx;
use crate::rng::Rng;
use crate::util::{enc_text, guarded, panic_signature};
use cooklang::aisle::{self, AisleConf, AisleConfError};
use std::collections::HashSet;

/// the format's alphabet for the exhaustive part
const ALPHA: [char; 13] = ['[', ']', '|', '/', 'a', 'b', ' ', '\n', '\r', '\t', '\u{0B}', '\u{A0}', 'é'];

fn render_conf(c: &AisleConf) -> String {
    let mut out = vec!["ok".to_string()];
    for cat in &c.categories {
        out.push("C".into());
        out.push(enc_text(cat.name));
        for i in &cat.ingredients {
            out.push(format!("I{}", i.names.len()));
            for n in &i.names { out.push(enc_text(n)); }
        }
    }
    out.join(" ")
}

/// the two `Parse` errors are told apart by WHERE they point (the message text is presentation): a bad category name is
/// the text between `[` and `]`, a line outside any category is a whole line
fn parse_err_kind(input: &str, span: &cooklang::Span) -> &'static str {
    let b = input.as_bytes();
    if span.start() > 0 && b.get(span.start() - 1) == Some(&b'[') && b.get(span.end()) == Some(&b']') { "invalid_category" } else { "expected_category" }
}

fn render_err(e: &AisleConfError, input: &str) -> String {
    match e {
        AisleConfError::Parse { span, .. } => {
            let kind = parse_err_kind(input, span);
            format!("err {kind} {} {}", span.start(), span.end())
        }
        AisleConfError::DuplicateCategory { name, first_span, second_span } =>
            format!("err dup_category {} {} {} {} {}", enc_text(name), first_span.start(), first_span.end(), second_span.start(), second_span.end()),
        AisleConfError::DuplicateIngredient { name, first_span, second_span } =>
            format!("err dup_ingredient {} {} {} {} {}", enc_text(name), first_span.start(), first_span.end(), second_span.start(), second_span.end()),
    }
}

/// development aid: `C11_ORIG=1` compares the code with the model of the code BEFORE the repairs (ops `*_orig`),
/// to validate lean/CookModel/Side/AisleOrig.lean against an unrepaired tree. Never set by ./check.
fn sfx() -> &'static str { if std::env::var_os("C11_ORIG").is_some() { "_orig" } else { "" } }

/// stable signature of a panic: source file from `src/` on, message without numbers and without the quoted text
fn psig(p: &str) -> String {
    let s = panic_signature(p);
    let s = match s.find("src/") { Some(k) => format!("panic:{}", &s[k..]), None => s };
    let s = s.split('`').next().unwrap_or("").to_string();
    s.chars().map(|c| if c.is_ascii_digit() { '#' } else { c }).collect::<String>().trim_end().to_string()
}

fn show(s: &str) -> String { format!("aisle file {:?}", s) }

/// offset of a borrowed name inside the input, if it is a slice of it
fn offset_in(input: &str, s: &str) -> Option<usize> {
    let (a, b) = (input.as_ptr() as usize, s.as_ptr() as usize);
    if b >= a && b + s.len() <= a + input.len() { Some(b - a) } else { None }
}

/// The oracle for a successful parse, evaluated on the implementation's own result.
fn oracle_ok(ctx: &mut Ctx, input: &str, c: &AisleConf) {
    let desc = show(input);
    // trimmed, duplicate-free
    let mut cats = HashSet::new();
    let mut names = HashSet::new();
    for cat in &c.categories {
        if !cats.insert(cat.name) { ctx.oracle_fail(desc.clone(), format!("category {:?} occurs twice", cat.name), "c11:dup_category".into()); }
        for i in &cat.ingredients {
            if i.names.is_empty() { ctx.oracle_fail(desc.clone(), "ingredient line without a name".into(), "c11:shape_empty_line".into()); }
            for n in &i.names {
                if *n != n.trim() { ctx.oracle_fail(desc.clone(), format!("name {:?} is not trimmed", n), "c11:untrimmed".into()); }
                if n.contains('|') { ctx.oracle_fail(desc.clone(), format!("name {:?} contains the separator", n), "c11:separator_in_name".into()); }
                if !names.insert(*n) { ctx.oracle_fail(desc.clone(), format!("ingredient name {:?} occurs twice", n), "c11:dup_ingredient".into()); }
            }
        }
    }
    // file order: every name is a slice of the input, the slices come in file order, a category name sits
    // between `[` and `]`, the names of one ingredient are on one line, separated by `|` and white space only
    let b = input.as_bytes();
    let mut pos = 0usize;
    let mut bad_order = None;
    'outer: for cat in &c.categories {
        let Some(o) = offset_in(input, cat.name) else { bad_order = Some(format!("category {:?} is not a slice of the input", cat.name)); break };
        if o < pos || o == 0 || b[o - 1] != b'[' || b.get(o + cat.name.len()) != Some(&b']') {
            bad_order = Some(format!("category {:?} at byte {o} is not a bracketed name after byte {pos}", cat.name)); break;
        }
        pos = o + cat.name.len();
        for i in &cat.ingredients {
            let mut prev_end: Option<usize> = None;
            for n in &i.names {
                let Some(o) = offset_in(input, n) else { bad_order = Some(format!("name {:?} is not a slice of the input", n)); break 'outer };
                if o < pos { bad_order = Some(format!("name {:?} at byte {o} comes before byte {pos}", n)); break 'outer; }
                let gap = &input[pos..o];
                match prev_end {
                    Some(_) => if gap.trim() != "|" { bad_order = Some(format!("between two synonyms: {:?}", gap)); break 'outer; },
                    None => {
                        if !gap.contains('\n') && pos != 0 { bad_order = Some(format!("name {:?} does not start a new line", n)); break 'outer; }
                        let line_start = gap.rfind('\n').map(|k| k + 1).unwrap_or(0);
                        if !gap[line_start..].trim().is_empty() { bad_order = Some(format!("text {:?} before the first name of a line", &gap[line_start..])); break 'outer; }
                    }
                }
                if n.contains('\n') { bad_order = Some(format!("name {:?} spans lines", n)); break 'outer; }
                pos = o + n.len();
                prev_end = Some(pos);
            }
            // rest of the line: white space, then nothing or a comment
            let rest = &input[pos..];
            let rest = &rest[..rest.find('\n').unwrap_or(rest.len())];
            let rest = rest.trim_start();
            if !(rest.is_empty() || rest.starts_with("//")) { bad_order = Some(format!("text {:?} after the last name of a line", rest)); break 'outer; }
        }
    }
    if let Some(m) = bad_order { ctx.oracle_fail(desc.clone(), m, "c11:file_order".into()); }
    // nothing dropped: every line that is not blank (comment removed) became a category or an ingredient.
    // Which white space makes a line blank is not fixed by the property: bounds with both trims.
    fn body(l: &str) -> &str { l.split_once("//").map(|x| x.0).unwrap_or(l) }
    let lo = input.lines().filter(|l| !body(l).trim().is_empty()).count();
    let hi = input.lines().filter(|l| !body(l).trim_ascii().is_empty()).count();
    let got = c.categories.len() + c.categories.iter().map(|c| c.ingredients.len()).sum::<usize>();
    if got < lo || got > hi {
        ctx.oracle_fail(desc.clone(), format!("{got} categories+ingredient lines for {lo}..{hi} non-blank lines"), "c11:line_count".into());
    }

    // round trip
    // on half of the inputs the configuration is queried first (what a shopping-list user does before saving): a
    // read-only call must not change what `==` sees
    let queried_first = input.len() % 2 == 0;
    if queried_first { let _ = guarded(|| c.ingredients_info().len()); ctx.count("roundtrip:after-a-lookup"); }
    let rt = guarded(|| {
        let mut buf = Vec::new();
        aisle::write(c, &mut buf).map_err(|e| e.to_string())?;
        // the destination is any `io::Write`: a sink that takes a few bytes per call (as a pipe or a socket may) has to end up
        // with the same bytes
        struct Chunky { out: Vec<u8>, n: usize }
        impl std::io::Write for Chunky {
            fn write(&mut self, b: &[u8]) -> std::io::Result<usize> { let k = b.len().min(self.n); self.out.extend_from_slice(&b[..k]); Ok(k) }
            fn flush(&mut self) -> std::io::Result<()> { Ok(()) }
        }
        let mut chunky = Chunky { out: Vec::new(), n: 1 + input.len() % 5 };
        aisle::write(c, &mut chunky).map_err(|e| e.to_string())?;
        if chunky.out != buf { return Err(format!("a sink that accepts {} byte(s) per call received {:?}, a Vec received {:?}", chunky.n, String::from_utf8_lossy(&chunky.out), String::from_utf8_lossy(&buf))); }
        let text = String::from_utf8(buf).map_err(|e| e.to_string())?;
        let again = match aisle::parse(&text) { Ok(c2) => if &c2 == c && c2.categories == c.categories { "same".to_string() } else { format!("diff: {}", render_conf(&c2)) }, Err(e) => format!("err: {}", render_err(&e, &text)) };
        Ok::<(String, String), String>((text, again))
    });
    let rt_reply = match rt {
        Err(p) => { ctx.oracle_fail(desc.clone(), format!("write/re-parse panics: {p}"), psig(&p)); "panic".to_string() }
        Ok(Err(e)) => { ctx.oracle_fail(desc.clone(), format!("write fails: {e}"), "c11:write_error".into()); "write-error".to_string() }
        Ok(Ok((text, again))) => {
            if again != "same" { ctx.oracle_fail(desc.clone(), format!("written as {:?}, parsed again: {again}{}", text, if queried_first { " (ingredients_info() had been called on the configuration before)" } else { "" }), "c11:roundtrip".into()); }
            format!("rt {} {}", enc_text(&text), again.split(':').next().unwrap())
        }
    };
    ctx.case(format!("aisle_rt{} {}", sfx(), enc_text(input)), rt_reply.clone(), !c.categories.is_empty(), desc.clone());

    // the byte level of the round trip (model: Side/AisleUtf8.lean, theorem C11_roundtrip_bytes): the bytes `write` put into a
    // Vec against `utf8Encode` of the written text, and `str::from_utf8` of those bytes against `utf8Decode`
    if sfx().is_empty() && rt_reply.starts_with("rt ") {
        let mut buf = Vec::new();
        let _ = aisle::write(c, &mut buf);
        if !buf.is_ascii() || crate::util::hash64(input) % 8 == 0 {
            if let Ok(text) = std::str::from_utf8(&buf) {
                ctx.case(format!("utf8_enc {}", enc_text(text)), enc_bytes(&buf), !buf.is_ascii(), format!("{desc}: bytes written by aisle::write"));
            }
            ctx.case(format!("utf8_dec {}", enc_bytes(&buf)), dec_reply(&buf), !buf.is_ascii(), format!("{desc}: from_utf8 of the bytes written by aisle::write"));
        }
    }

    // the calls `write` makes on its destination (model: Side/AisleSink.lean, theorem C11_write_sink): a destination that
    // accepts at most `n` bytes per call and `cap` bytes in all (a pipe, a socket, `&mut [u8]`) — what it holds afterwards
    // and whether `write` returned Ok or Err(WriteZero)
    if sfx().is_empty() {
        struct Lim { out: Vec<u8>, n: usize, cap: usize }
        impl std::io::Write for Lim {
            fn write(&mut self, b: &[u8]) -> std::io::Result<usize> {
                let k = b.len().min(self.n).min(self.cap.saturating_sub(self.out.len()));
                self.out.extend_from_slice(&b[..k]);
                Ok(k)
            }
            fn flush(&mut self) -> std::io::Result<()> { Ok(()) }
        }
        let full_len = { let mut b = Vec::new(); let _ = aisle::write(c, &mut b); b.len() };
        let h = crate::util::hash64(input) as usize;
        // (per call, capacity): roomy with short writes; exactly full; one byte short; a small slice
        let shapes = [(1 + h % 4, full_len + 8), (1 + h % 7, full_len), (2 + h % 3, full_len.saturating_sub(1)), (64, (h / 7) % (full_len + 1))];
        for (n, cap) in shapes {
            let mut lim = Lim { out: Vec::new(), n, cap };
            let reply = match guarded(|| aisle::write(c, &mut lim).map_err(|e| e.kind())) {
                Err(p) => { ctx.oracle_fail(desc.clone(), format!("write into a limited destination panics: {p}"), psig(&p)); "panic".to_string() }
                Ok(r) => {
                    let bytes = if lim.out.is_empty() { "-".to_string() } else { lim.out.iter().map(|b| b.to_string()).collect::<Vec<_>>().join(",") };
                    match r {
                        Ok(()) => {
                            // oracle: success is only reported for the complete text
                            if lim.out.len() != full_len { ctx.oracle_fail(desc.clone(), format!("write reports Ok although the destination ({n} byte(s) per call, room {cap}) received {} of {full_len} bytes", lim.out.len()), "c11:write_truncated".into()); }
                            ctx.count("sink:ok");
                            format!("ok {bytes}")
                        }
                        Err(std::io::ErrorKind::WriteZero) => { ctx.count("sink:write-zero"); format!("werr {bytes}") }
                        Err(k) => format!("ioerr {k:?} {bytes}"),
                    }
                }
            };
            ctx.case(format!("aisle_sink {} {} {}", enc_text(input), n, cap), reply, full_len > 0, format!("{desc}, destination {n} byte(s)/call, room {cap}"));
        }
    }
}

/// lookup oracle + correspondence
fn lookups(ctx: &mut Ctx, input: &str, c: &AisleConf, probes: &[&str], max_cases: usize) {
    let desc = show(input);
    let info = match guarded(|| c.ingredients_info()) {
        Ok(i) => i,
        Err(p) => { ctx.oracle_fail(desc, format!("ingredients_info panics: {p}"), psig(&p)); return; }
    };
    let mut total = 0usize;
    let mut sent = 0usize;
    for cat in &c.categories { for i in &cat.ingredients { for n in &i.names {
        total += 1;
        match info.get(n) {
            Some(x) if x.name == *n && x.category == cat.name && Some(&x.common_name) == i.names.first() => {}
            Some(x) => ctx.oracle_fail(desc.clone(), format!("lookup of {:?} gives category {:?}, common name {:?}, name {:?}; expected {:?}, {:?}", n, x.category, x.common_name, x.name, cat.name, i.names.first()), "c11:lookup".into()),
            None => ctx.oracle_fail(desc.clone(), format!("lookup of {:?} finds nothing", n), "c11:lookup_missing".into()),
        }
        if sent < max_cases {
            sent += 1;
            let reply = info.get(n).map(|x| format!("some {} {} {}", enc_text(x.name), enc_text(x.common_name), enc_text(x.category))).unwrap_or("none".into());
            ctx.case(format!("aisle_lookup{} {} {}", sfx(), enc_text(input), enc_text(n)), reply, true, format!("{desc}, lookup {:?}", n));
        }
    }}}
    if info.len() != total { ctx.oracle_fail(desc.clone(), format!("{} entries for {total} names", info.len()), "c11:lookup_size".into()); }
    let all: HashSet<&str> = c.categories.iter().flat_map(|c| c.ingredients.iter()).flat_map(|i| i.names.iter().copied()).collect();
    for p in probes {
        if all.contains(p) { continue; }
        if info.get(p).is_some() { ctx.oracle_fail(desc.clone(), format!("lookup of the absent name {:?} finds something", p), "c11:lookup_absent".into()); }
        if total > 0 { ctx.case(format!("aisle_lookup{} {} {}", sfx(), enc_text(input), enc_text(p)), "none".into(), false, format!("{desc}, lookup {:?}", p)); }
    }
    ctx.count_n("lookups_checked", total as u64);
}

pub fn one(ctx: &mut Ctx, input: &str, max_lookup_cases: usize) {
    let desc = show(input);
    let op = format!("aisle{} {}", sfx(), enc_text(input));
    let r = guarded(|| aisle::parse(input));
    match r {
        Err(p) => {
            ctx.count("result:panic");
            ctx.oracle_fail(desc.clone(), format!("parse panics: {p}"), psig(&p));
            ctx.case(op, "panic".into(), true, desc);
        }
        Ok(Err(e)) => {
            let (kind, spans) = match &e {
                AisleConfError::Parse { span, .. } => (parse_err_kind(input, span), vec![*span]),
                AisleConfError::DuplicateCategory { first_span, second_span, .. } => ("dup_category", vec![*first_span, *second_span]),
                AisleConfError::DuplicateIngredient { first_span, second_span, .. } => ("dup_ingredient", vec![*first_span, *second_span]),
            };
            ctx.count(&format!("result:err:{kind}"));
            for s in &spans {
                if s.start() > s.end() || s.end() > input.len() {
                    ctx.oracle_fail(desc.clone(), format!("{kind}: span {}..{} outside the input of {} bytes", s.start(), s.end(), input.len()), "c11:span_outside".into());
                } else if !input.is_char_boundary(s.start()) || !input.is_char_boundary(s.end()) {
                    ctx.oracle_fail(desc.clone(), format!("{kind}: span {}..{} not on char boundaries", s.start(), s.end()), "c11:span_boundary".into());
                }
            }
            ctx.case(op, render_err(&e, input), true, desc);
        }
        Ok(Ok(c)) => {
            let ncat = c.categories.len();
            let nigr: usize = c.categories.iter().map(|c| c.ingredients.len()).sum();
            let nsyn: usize = c.categories.iter().flat_map(|c| c.ingredients.iter()).map(|i| i.names.len()).sum();
            ctx.count(&format!("result:ok:cats={}", ncat.min(4)));
            ctx.count(&format!("result:ok:ingredient_lines={}", nigr.min(4)));
            if nsyn > nigr { ctx.count("result:ok:with_synonyms"); }
            if c.categories.iter().flat_map(|c| c.ingredients.iter()).flat_map(|i| i.names.iter()).any(|n| n.is_empty()) { ctx.count("result:ok:with_empty_name"); }
            ctx.case(op, render_conf(&c), ncat > 0, desc);
            oracle_ok(ctx, input, &c);
            lookups(ctx, input, &c, &["a", "", "zz", "[a]"], max_lookup_cases);
        }
    }
}

fn ranges(p: impl Fn(char) -> bool) -> String {
    let mut out = vec![];
    let mut start: Option<u32> = None;
    for n in 0..=0x110000u32 {
        let ok = char::from_u32(n).map(|c| p(c)).unwrap_or(false);
        match (start, ok) {
            (None, true) => start = Some(n),
            (Some(s), false) => { out.push(format!("{s}-{}", n - 1)); start = None; }
            _ => {}
        }
    }
    out.join(" ")
}

// ---------- structured generator ----------

const WS: [&str; 12] = [" ", " ", "  ", "\t", "\u{0B}", "\u{0C}", "\u{A0}", "\u{85}", "\u{2003}", "\u{3000}", "\u{1680}", "\r"];
const WORDS: [&str; 22] = ["milk", "butter", "tuna", "a", "b", "é", "chicken of the sea", "x/y", "a b", "ß", "日本", "oil", "[a]", "[", "]", "a]", "/", "salt", "egg", "c", "d", ""];
const CATS: [&str; 12] = ["produce", "dairy", "a", "b", "canned goods", " spaced ", "é", "", "x/y", "[", "]", "a\u{A0}"];

fn ws(rng: &mut Rng, p_num: u32) -> String {
    let mut s = String::new();
    while rng.chance(p_num, 10) { s.push_str(*rng.pick(&WS)); }
    s
}

fn fresh_word(rng: &mut Rng, used: &mut HashSet<String>, allow_dup: bool) -> String {
    for _ in 0..6 {
        let mut w = rng.pick(&WORDS).to_string();
        if rng.chance(1, 3) { w.push_str(&format!("{}", rng.below(50))); }
        if rng.chance(1, 8) { w = format!("{w}{}{}", *rng.pick(&WS), *rng.pick(&WORDS)); }
        if allow_dup || !used.contains(w.trim()) { used.insert(w.trim().to_string()); return w; }
    }
    let w = format!("w{}", used.len());
    used.insert(w.clone());
    w
}

/// a mostly well-formed file; `messy` adds odd white space, comments, empty synonyms, duplicates, orphans
pub(crate) fn gen_file(rng: &mut Rng, messy: bool) -> String {
    let mut out = String::new();
    let mut used = HashSet::new();
    let mut used_cats: HashSet<String> = HashSet::new();
    let eols = ["\n", "\n", "\n", "\r\n"];
    let ncat = rng.below(5);
    if messy && rng.chance(1, 12) { out.push_str(&fresh_word(rng, &mut used, false)); out.push('\n'); } // orphan line
    for _ in 0..ncat {
        let mut name = rng.pick(&CATS).to_string();
        if rng.chance(1, 2) { name.push_str(&format!("{}", rng.below(30))); }
        if used_cats.contains(&name) && !(messy && rng.chance(1, 6)) { name = format!("cat{}", used_cats.len()); }
        used_cats.insert(name.clone());
        if messy { out.push_str(&ws(rng, 2)); }
        out.push('['); out.push_str(&name);
        if messy && rng.chance(1, 25) { out.push('|'); }
        out.push(']');
        if messy { out.push_str(&ws(rng, 2)); if rng.chance(1, 6) { out.push_str("// comment [x] | y"); } }
        out.push_str(*rng.pick(&eols));
        for _ in 0..rng.below(4) {
            if messy && rng.chance(1, 6) { out.push_str(&ws(rng, 5)); if rng.chance(1, 3) { out.push_str("//only a comment"); } out.push_str(*rng.pick(&eols)); }
            let k = 1 + if rng.chance(1, 2) { rng.below(3) } else { 0 };
            if messy { out.push_str(&ws(rng, 2)); }
            for j in 0..k {
                if j > 0 { if messy { out.push_str(&ws(rng, 2)); } out.push('|'); if messy { out.push_str(&ws(rng, 2)); } }
                let dup = messy && rng.chance(1, 15);
                let mut w = fresh_word(rng, &mut used, dup);
                if w.is_empty() && k == 1 { w = "only".to_string() + &used.len().to_string(); }
                out.push_str(&w);
            }
            if messy { out.push_str(&ws(rng, 2)); if rng.chance(1, 8) { out.push_str("//c"); } }
            out.push_str(*rng.pick(&eols));
        }
        if rng.chance(1, 2) { out.push_str(*rng.pick(&eols)); }
    }
    if messy && rng.chance(1, 3) { while out.ends_with('\n') || out.ends_with('\r') { out.pop(); } }
    out
}

pub(crate) fn mutate(rng: &mut Rng, s: &str) -> String {
    let mut cs: Vec<char> = s.chars().collect();
    let extra = ['[', ']', '|', '/', '\n', '\r', ' ', '\u{0B}', '\u{A0}', 'a', 'é', '\u{2028}', '\u{85}'];
    for _ in 0..1 + rng.below(3) {
        let at = rng.below(cs.len() + 1);
        match rng.below(4) {
            0 => cs.insert(at, *rng.pick(&extra)),
            1 if !cs.is_empty() => { cs.remove(at.min(cs.len() - 1)); }
            2 if !cs.is_empty() => { let k = at.min(cs.len() - 1); cs[k] = *rng.pick(&extra); }
            _ => cs.truncate(at),
        }
    }
    cs.into_iter().collect()
}

pub(crate) fn soup(rng: &mut Rng) -> String {
    let extra = ['[', ']', '|', '/', '/', '\n', '\n', '\r', ' ', '\t', '\u{0B}', '\u{0C}', '\u{A0}', 'a', 'b', 'c', 'é', '\u{2028}', '\u{85}', '\u{3000}', '日', '\u{1F600}', '\u{FEFF}', '\0'];
    (0..rng.below(40)).map(|_| *rng.pick(&extra)).collect()
}


fn enc_bytes(b: &[u8]) -> String { if b.is_empty() { "-".into() } else { b.iter().map(|x| x.to_string()).collect::<Vec<_>>().join(",") } }
fn dec_reply(b: &[u8]) -> String { match std::str::from_utf8(b) { Ok(t) => format!("ok {}", enc_text(t)), Err(_) => "err".into() } }

/// `utf8Encode` / `utf8Decode` (Side/AisleUtf8.lean) against `str::as_bytes` / `std::str::from_utf8`
fn utf8_family(ctx: &mut Ctx) {
    let enc = |ctx: &mut Ctx, t: &str, what: &str| {
        ctx.count("utf8:enc");
        ctx.case(format!("utf8_enc {}", enc_text(t)), enc_bytes(t.as_bytes()), !t.is_ascii(), format!("{what}: as_bytes of {:?}", t.chars().take(12).collect::<String>()));
        ctx.count("utf8:dec-valid");
        ctx.case(format!("utf8_dec {}", enc_bytes(t.as_bytes())), dec_reply(t.as_bytes()), !t.is_ascii(), format!("{what}: from_utf8 of the bytes of {:?}", t.chars().take(12).collect::<String>()));
    };
    let dec = |ctx: &mut Ctx, b: &[u8], what: &str| {
        let r = dec_reply(b);
        ctx.count(if r == "err" { "utf8:dec-rejected" } else { "utf8:dec-accepted" });
        ctx.case(format!("utf8_dec {}", enc_bytes(b)), r, b.iter().any(|x| *x >= 0x80), format!("{what}: from_utf8 of {:02X?}", b));
    };
    // boundary scalar values one at a time and together
    let bounds: [u32; 20] = [0, 1, 0x7E, 0x7F, 0x80, 0x81, 0x7FE, 0x7FF, 0x800, 0x801, 0xD7FF, 0xE000, 0xFFFD, 0xFFFE, 0xFFFF, 0x10000, 0x10001, 0x3FFFF, 0x40000, 0x10FFFF];
    for b in bounds { let c = char::from_u32(b).unwrap(); enc(ctx, &c.to_string(), "boundary value"); enc(ctx, &format!("a{c}b"), "boundary value between ASCII"); }
    let all: String = bounds.iter().map(|b| char::from_u32(*b).unwrap()).collect();
    enc(ctx, &all, "all boundary values");
    enc(ctx, "", "empty text");
    // EVERY scalar value, 2048 per text
    let mut chunk = String::new();
    let mut k = 0;
    for n in 0..=0x10FFFFu32 {
        if let Some(c) = char::from_u32(n) { chunk.push(c); k += 1; }
        if k == 2048 || n == 0x10FFFF { enc(ctx, &chunk, "all scalar values"); ctx.count("utf8:all-scalars-chunk"); chunk.clear(); k = 0; }
    }
    // decoder: EVERY byte string of length 1 and 2
    for a in 0..=255u8 { dec(ctx, &[a], "every 1-byte string"); for b in 0..=255u8 { dec(ctx, &[a, b], "every 2-byte string"); } }
    // three-byte forms: every lead E0..EF (and the neighbours DF, F0) x every second byte x third byte around the continuation range
    let edge = [0x00u8, 0x7F, 0x80, 0xA5, 0xBF, 0xC0, 0xFF];
    for a in 0xDF..=0xF0u8 { for b in 0..=255u8 { for c in edge { dec(ctx, &[a, b, c], "3-byte forms"); } } }
    // four-byte forms: leads EF..FF x every second byte x third, fourth around the continuation range; and truncated
    let edge4 = [0x7Fu8, 0x80, 0xBF, 0xC0];
    for a in 0xEF..=0xFFu8 { for b in 0..=255u8 { for c in edge4 { for d in edge4 { dec(ctx, &[a, b, c, d], "4-byte forms"); } } } }
    for a in 0xF0..=0xF5u8 { for b in [0x7Fu8, 0x80, 0x8F, 0x90, 0xBF, 0xC0] { for c in edge4 { dec(ctx, &[a, b, c], "truncated 4-byte forms"); dec(ctx, &[a, b, c, b'a'], "4-byte form cut by ASCII"); } } }
    // named malformed strings
    for b in [&[0xC0u8, 0x80][..], &[0xC1, 0xBF], &[0xE0, 0x80, 0x80], &[0xE0, 0x9F, 0xBF], &[0xF0, 0x80, 0x80, 0x80], &[0xF0, 0x8F, 0xBF, 0xBF], &[0xED, 0xA0, 0x80], &[0xED, 0xBF, 0xBF],
              &[0xF4, 0x90, 0x80, 0x80], &[0xF5, 0x80, 0x80, 0x80], &[0xF8, 0x88, 0x80, 0x80, 0x80], &[0x80], &[0xBF], &[0x61, 0x80, 0x62], &[0xC3], &[0xE2, 0x82], &[0xF0, 0x9F, 0x98],
              &[0xC3, 0xA9, 0xA9], &[0xFE], &[0xFF], &[0xEF, 0xBB, 0xBF], &[0xED, 0x9F, 0xBF], &[0xEE, 0x80, 0x80], &[0xF4, 0x8F, 0xBF, 0xBF]] { dec(ctx, b, "named malformed / boundary string"); }
    // random: encodings of random texts, damaged (truncated, a byte dropped / replaced / inserted), and byte soups weighted to lead and continuation bytes
    let mut rng = Rng::new(ctx.seed ^ 0xC11_08F8);
    let n = if ctx.thorough { 200_000 } else { 20_000 };
    let pool: Vec<char> = bounds.iter().filter_map(|b| char::from_u32(*b)).chain("[]|/ab \n\r\té日€😀\u{A0}\u{2028}\u{FEFF}".chars()).collect();
    for i in 0..n {
        let t: String = (0..rng.below(9)).map(|_| if rng.chance(1, 4) { loop { if let Some(c) = char::from_u32(rng.below(0x110000) as u32) { break c; } } } else { *rng.pick(&pool) }).collect();
        let mut b = t.as_bytes().to_vec();
        match i % 6 {
            0 => { enc(ctx, &t, "random text"); continue; }
            1 => { let k = rng.below(b.len() + 1); b.truncate(k); }
            2 => { if !b.is_empty() { let k = rng.below(b.len()); b.remove(k); } }
            3 => { if !b.is_empty() { let k = rng.below(b.len()); b[k] = *rng.pick(&[0x80u8, 0xBF, 0xC0, 0xC1, 0xC2, 0xE0, 0xED, 0xF0, 0xF4, 0xF5, 0xFF, 0x41, 0xA0, 0x9F, 0x90, 0x8F]); } }
            4 => { let k = rng.below(b.len() + 1); b.insert(k, *rng.pick(&[0x80u8, 0xBF, 0xC2, 0xE0, 0xED, 0xF0, 0xF4, 0xA0, 0x9F, 0x90, 0x8F])); }
            _ => { b = (0..rng.below(7)).map(|_| if rng.chance(1, 3) { rng.below(256) as u8 } else { *rng.pick(&[0x80u8, 0x8F, 0x90, 0x9F, 0xA0, 0xBF, 0xC2, 0xDF, 0xE0, 0xE1, 0xEC, 0xED, 0xEE, 0xEF, 0xF0, 0xF1, 0xF3, 0xF4, 0x61]) }).collect(); }
        }
        dec(ctx, &b, "damaged encoding / byte soup");
    }
}

pub fn run(ctx: &mut Ctx) {
    let maxlen = if ctx.thorough { 6 } else { 5 };
    ctx.rule = format!("(1) the files of corpus/C11; (2) EVERY string of length 0..={maxlen} over the 13 symbols [ ] | / a b space \\n \\r \\t U+000B U+00A0 é \
and every such string of length 0..={} after the header line `[a]` (both exhaustive); (3) random structured files (clean: distinct names, 0-4 categories, 0-3 lines each, 1-3 synonyms; messy: Unicode/ASCII white space around \
every token, comments, CRLF, empty synonyms, duplicate names and categories, orphan lines, `|` in category names, missing final newline), 1-3 character \
mutations of them, and symbol soups up to 40 characters. Per input: parse compared with the model, on success write+re-parse and lookups of every name \
(+absent probes) compared and checked by the oracle. non-trivial = a configuration with at least one category or an error; distinct = distinct request lines. \
`exhaustive` refers to part (2). \
(0) the byte level: `utf8_enc` / `utf8_dec` of the model against `str::as_bytes` / `str::from_utf8` on every scalar value (2048 per text), the boundary values \
7F/80/7FF/800/D7FF/E000/FFFF/10000/10FFFF, EVERY byte string of length 1 and 2, the 3- and 4-byte forms with every second byte and third/fourth bytes around 80..BF, \
truncated / overlong / surrogate / above-10FFFF / stray-continuation strings, damaged encodings of random texts, byte soups, and the bytes `aisle::write` produced for the parsed files.", maxlen - 1);
    ctx.exhaustive = true;

    // char classes of std against the model's explicit tables
    ctx.case("ws_table".into(), ranges(char::is_whitespace), true, "char::is_whitespace over all scalar values".into());
    ctx.case("ascii_ws_table".into(), ranges(|c| c.is_ascii() && (c as u8).is_ascii_whitespace()), true, "u8::is_ascii_whitespace over all scalar values".into());

    // the byte level: the hand-written UTF-8 encoder / decoder of the model against std
    if sfx().is_empty() { utf8_family(ctx); ctx.flush(); }

    // (1) corpus first
    if let Ok(rd) = std::fs::read_dir("corpus/C11") {
        let mut files: Vec<_> = rd.filter_map(|e| e.ok()).map(|e| e.path()).collect();
        files.sort();
        for f in files {
            if let Ok(s) = std::fs::read_to_string(&f) { ctx.count("corpus_files"); one(ctx, &s, 8); }
        }
    }
    for s in ["[a]\nx|\ny|", "[a]\n|", "[c]\n[a]\u{0B}", "[c]\n[a]\u{A0}", "[a]\n\u{0B}", "", "\n", "[]", "[]\n[]", "[a]\nx| \ny| ", "[a|b]", "x", "[é]\né|é"] { one(ctx, s, 8); }
    ctx.flush();

    // (2) exhaustive: every short string, and every short string below a category header
    for (prefix, maxlen) in [("", maxlen), ("[a]\n", maxlen - 1)] {
        let mut idx: Vec<usize> = vec![];
        let mut buf = String::new();
        for len in 0..=maxlen {
            idx.clear(); idx.resize(len, 0);
            loop {
                buf.clear();
                buf.push_str(prefix);
                for &i in &idx { buf.push(ALPHA[i]); }
                ctx.count(if prefix.is_empty() { "exhaustive_inputs" } else { "exhaustive_inputs_below_header" });
                one(ctx, &buf, 3);
                // odometer
                let mut k = len;
                let mut more = false;
                while k > 0 {
                    k -= 1;
                    idx[k] += 1;
                    if idx[k] < ALPHA.len() { more = true; break; }
                    idx[k] = 0;
                }
                if !more { break; }
            }
        }
    }

    // (3) random structured files, mutants, soups
    let mut rng = Rng::new(ctx.seed ^ 0xC11);
    let n = if ctx.thorough { 400_000 } else { 30_000 };
    for i in 0..n {
        let s = match i % 5 {
            0 => { ctx.count("gen:clean"); gen_file(&mut rng, false) }
            1 | 2 => { ctx.count("gen:messy"); gen_file(&mut rng, true) }
            3 => { ctx.count("gen:mutant"); let base = gen_file(&mut rng, i % 2 == 0); mutate(&mut rng, &base) }
            _ => { ctx.count("gen:soup"); soup(&mut rng) }
        };
        one(ctx, &s, 6);
    }
}
