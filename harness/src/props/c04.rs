//! C04 Every reported source location is in bounds, on char boundaries, faithful.
use crate::ctx::Ctx;
use crate::gen;
use crate::render::*;
use crate::rng::Rng;
use crate::util::{enc_text, guarded, panic_signature};
use cooklang::parser::{Event, PullParser};
use cooklang::{Converter, CooklangParser, Extensions, Span, Text};

fn text_spans<'a>(what: &str, t: &Text<'a>, out: &mut Vec<(String, Span)>, frags: &mut Vec<(usize, String)>) {
    out.push((format!("{what}.span"), t.span()));
    for f in t.fragments() {
        out.push((format!("{what}.fragment"), f.span()));
        let soft = format!("{f:?}").starts_with("SoftBreak(");
        let _ = soft;
        frags.push((f.start(), f.text().to_string()));
    }
}

/// every span carried by an event, and every text fragment (offset, content)
pub fn event_spans(ev: &Event, out: &mut Vec<(String, Span)>, frags: &mut Vec<(usize, String)>) {
    let q = |q: &cooklang::Located<cooklang::parser::Quantity>, out: &mut Vec<(String, Span)>, frags: &mut Vec<(usize, String)>| {
        out.push(("quantity".into(), q.span()));
        out.push(("quantity.value".into(), q.value.value.span()));
        if let Some(l) = q.value.scaling_lock { out.push(("quantity.lock".into(), l)); }
        if let Some(u) = &q.unit { text_spans("quantity.unit", u, out, frags); }
    };
    match ev {
        Event::YAMLFrontMatter(t) => text_spans("frontmatter", t, out, frags),
        Event::Metadata { key, value } => { text_spans("meta.key", key, out, frags); text_spans("meta.value", value, out, frags); }
        Event::Section { name } => { if let Some(n) = name { text_spans("section.name", n, out, frags); } }
        Event::Start(_) | Event::End(_) => {}
        Event::Text(t) => text_spans("text", t, out, frags),
        Event::Ingredient(i) => {
            out.push(("ingredient".into(), i.span()));
            out.push(("ingredient.modifiers".into(), i.modifiers.span()));
            if let Some(d) = &i.intermediate_data { out.push(("ingredient.intermediate".into(), d.span())); }
            text_spans("ingredient.name", &i.name, out, frags);
            if let Some(a) = &i.alias { text_spans("ingredient.alias", a, out, frags); }
            if let Some(qq) = &i.quantity { q(qq, out, frags); }
            if let Some(n) = &i.note { text_spans("ingredient.note", n, out, frags); }
        }
        Event::Cookware(c) => {
            out.push(("cookware".into(), c.span()));
            out.push(("cookware.modifiers".into(), c.modifiers.span()));
            text_spans("cookware.name", &c.name, out, frags);
            if let Some(a) = &c.alias { text_spans("cookware.alias", a, out, frags); }
            if let Some(qv) = &c.quantity { out.push(("cookware.quantity".into(), qv.span())); out.push(("cookware.quantity.value".into(), qv.value.span())); }
            if let Some(n) = &c.note { text_spans("cookware.note", n, out, frags); }
        }
        Event::Timer(t) => {
            out.push(("timer".into(), t.span()));
            if let Some(n) = &t.name { text_spans("timer.name", n, out, frags); }
            if let Some(qq) = &t.quantity { q(qq, out, frags); }
        }
        Event::Error(d) | Event::Warning(d) => { for l in &d.labels { out.push((format!("label:{}", diag_kind(d)), l.0)); } }
    }
}

/// span of an event for the ordering clause (non-diagnostic content events)
fn order_span(ev: &Event) -> Option<Span> {
    match ev {
        Event::YAMLFrontMatter(t) | Event::Text(t) => Some(t.span()),
        Event::Metadata { key, value } => Some(Span::from(key.span().start()..value.span().end())),
        Event::Section { name } => name.as_ref().map(|n| n.span()),
        Event::Ingredient(i) => Some(i.span()),
        Event::Cookware(c) => Some(c.span()),
        Event::Timer(t) => Some(t.span()),
        _ => None,
    }
}

pub fn check_span(input: &str, what: &str, s: Span) -> Option<String> {
    if s.start() > s.end() { return Some(format!("{what} {}..{} has start > end", s.start(), s.end())); }
    if s.end() > input.len() { return Some(format!("{what} {}..{} ends outside the input (len {})", s.start(), s.end(), input.len())); }
    if !input.is_char_boundary(s.start()) || !input.is_char_boundary(s.end()) { return Some(format!("{what} {}..{} is not on a char boundary", s.start(), s.end())); }
    None
}

/// `build_ast(PullParser::new(input, ext))` against the model's `buildAstOfInput` (Syntax/Ast.lean): blocks, items,
/// texts with their spans, and the report. A panic is judged by C03; here it only shows as a disagreement.
pub fn ast_case(ctx: &mut Ctx, input: &str, ext_bits: u32, desc: &str) {
    let ext = Extensions::from_bits_retain(ext_bits);
    let r = guarded(|| { let res = cooklang::ast::build_ast(PullParser::new(input, ext)); (r_ast(&res), res.output().map_or(0, |a| a.blocks.len())) });
    let (reply, nblocks) = match r { Ok(x) => x, Err(_) => { ctx.count("ast:panicked"); ("PANIC".to_string(), 1) } };
    ctx.count(&format!("ast:blocks:{}", match nblocks { 0 => "0", 1 => "1", 2..=4 => "2-4", _ => "5+" }));
    ctx.case(format!("ast {ext_bits} {}", enc_text(input)), reply, nblocks > 0, format!("build_ast {desc}"));
}

/// The painted pieces of the coloured text `SourceReport::write` produced, per diagnostic in write order, compared
/// with the model of the label preparation (lean/CookModel/Side/Report.lean, op `report_prep`): which labels are
/// shown, in which order, in which colour, on which line, and which bytes of the source they cover.
pub fn report_prep_case(ctx: &mut Ctx, input: &str, rep: &cooklang::error::SourceReport, colored: &[u8], desc: &str) {
    if rep.is_empty() { return; }
    if input.contains('\u{1b}') || input.contains('│') { ctx.count("report_prep:skipped (ESC or box character in the input)"); return; }
    let Ok(text) = std::str::from_utf8(colored) else { return };
    let order: Vec<&cooklang::error::SourceDiag> = rep.warnings().chain(rep.errors()).collect();
    // per diagnostic: the code lines (0-based line number, painted pieces)
    let mut diags: Vec<Vec<(usize, Vec<(String, String)>)>> = vec![];
    for line in text.split('\n') {
        if line.starts_with("\u{1b}[33mWarning:\u{1b}[0m ") || line.starts_with("\u{1b}[31mError:\u{1b}[0m ") { diags.push(vec![]); continue; }
        let t = line.trim_start_matches(' ');
        let digits: String = t.chars().take_while(|c| c.is_ascii_digit()).collect();
        if digits.is_empty() { continue; }
        let Some(mut rest) = t[digits.len()..].strip_prefix(" │") else { continue };
        let Some(cur) = diags.last_mut() else { continue };
        // continuation marker of a label that runs over several lines: a painted `│` right after the gutter
        if let Some(r) = rest.strip_prefix(" \u{1b}[") {
            if let Some((code, after)) = r.split_once('m') {
                if code.chars().all(|c| c.is_ascii_digit()) { if let Some(after) = after.strip_prefix("│\u{1b}[0m") { rest = after; } }
            }
        }
        let mut pieces = vec![];
        let mut r = rest;
        while let Some(i) = r.find("\u{1b}[") {
            let after = &r[i + 2..];
            let Some((code, after)) = after.split_once('m') else { break };
            let Some((piece, after)) = after.split_once("\u{1b}[0m") else { break };
            let name = match code { "95" => "BrightMagenta", "92" => "BrightGreen", "96" => "BrightCyan", "94" => "BrightBlue", "93" => "BrightYellow", "91" => "BrightRed", other => other };
            pieces.push((name.to_string(), piece.to_string()));
            r = after;
        }
        cur.push((digits.parse::<usize>().unwrap_or(0).wrapping_sub(1), pieces));
    }
    let reply = if diags.len() != order.len() { format!("UNPARSEABLE {} headers for {} diagnostics", diags.len(), order.len()) } else {
        order.iter().zip(diags.iter()).map(|(d, lines)| {
            if d.labels.is_empty() { "N".to_string() }
            else if lines.is_empty() { "R".to_string() }
            else { format!("B[{}]", lines.iter().map(|(n, ps)| format!("L{n}:{}", ps.iter().map(|(c, t)| format!("{c}={}", r_cps(t))).collect::<Vec<_>>().join(","))).collect::<Vec<_>>().join(";")) }
        }).collect::<Vec<_>>().join(" ")
    };
    for (d, lines) in order.iter().zip(diags.iter()) {
        ctx.count(if d.labels.is_empty() { "report_prep:diag:no-labels" } else if lines.is_empty() { "report_prep:diag:block-refused" } else if lines.len() > 1 { "report_prep:diag:block-multi-line" } else { "report_prep:diag:block" });
        if d.labels.len() >= 7 { ctx.count("report_prep:diag:7+labels (colour wrap-around)"); }
    }
    let enc = |d: &cooklang::error::SourceDiag| format!("{}:{}", if d.is_warning() { "W" } else { "E" },
        if d.labels.is_empty() { "-".to_string() } else { d.labels.iter().map(|l| format!("{}.{}", l.0.start(), l.0.end())).collect::<Vec<_>>().join(",") });
    let ds = rep.iter().map(enc).collect::<Vec<_>>().join(";");
    ctx.case(format!("report_prep {} {}", enc_text(input), ds), reply, order.iter().any(|d| !d.labels.is_empty()), format!("report_prep {desc}"));
}

/// The WIDTHS `write_report` hands to codesnake (`max(w, 1) - sub`, lean/CookModel/Side/ReportWidths.lean, op
/// `report_widths`), read back from the underline row codesnake draws under every code line of the coloured text:
/// `─`×w in the label's colour for a label without text, `─…┬…─` for a label with text, w spaces for unlabelled
/// code; and the gutter width from the prologue.  The widths of the strings involved come from the real
/// `unicode-width` (every slice of a line between two cut points — label ends, line ends —, tabs expanded).
/// Reports with a label over several lines are not compared (the rows around `incoming`/`outgoing` parts are not parsed).
pub fn report_widths_case(ctx: &mut Ctx, input: &str, rep: &cooklang::error::SourceReport, colored: &[u8], desc: &str) {
    use unicode_width::UnicodeWidthStr;
    if rep.is_empty() { return; }
    if input.contains('\u{1b}') || input.contains('│') || input.contains('┆') { return; }
    let Ok(text) = std::str::from_utf8(colored) else { return };
    let order: Vec<&cooklang::error::SourceDiag> = rep.warnings().chain(rep.errors()).collect();
    for d in &order { for l in &d.labels {
        let (a, b) = (l.0.start(), l.0.end());
        match input.get(a..b) { Some(t) if !t.contains('\n') => {}, _ => { ctx.count("report_widths:skipped (label over several lines or invalid)"); return; } }
    } }
    // per diagnostic: gutter width and the underline rows (line number, parts)
    let mut diags: Vec<(usize, Vec<(usize, Vec<String>)>)> = vec![];
    let lines: Vec<&str> = text.split('\n').collect();
    let mut i = 0;
    while i < lines.len() {
        let line = lines[i]; i += 1;
        if line.starts_with("\u{1b}[33mWarning:\u{1b}[0m ") || line.starts_with("\u{1b}[31mError:\u{1b}[0m ") { diags.push((0, vec![])); continue; }
        let Some(cur) = diags.last_mut() else { continue };
        let t = line.trim_start_matches(' ');
        if t.starts_with("╭─") && cur.1.is_empty() { cur.0 = (line.len() - t.len()).saturating_sub(1); continue; }
        let digits: String = t.chars().take_while(|c| c.is_ascii_digit()).collect();
        if digits.is_empty() || !t[digits.len()..].starts_with(" │") { continue; }
        // the row under a code line: gutter, ` ┆`, a space, the underlines
        let Some(row) = lines.get(i) else { continue };
        let Some(mut r) = row.trim_start_matches(' ').strip_prefix("┆ ") else { continue };
        let mut parts = vec![];
        while !r.is_empty() {
            if let Some(after) = r.strip_prefix("\u{1b}[") {
                let Some((_code, after)) = after.split_once('m') else { break };
                let Some((piece, after)) = after.split_once("\u{1b}[0m") else { break };
                parts.push(format!("l{}", piece.chars().count()));
                r = after;
            } else {
                let n = r.chars().take_while(|c| *c == ' ').count();
                if n == 0 { parts.push(format!("?{r}")); break; }
                parts.push(format!("p{n}"));
                r = &r[n..];
            }
        }
        cur.1.push((digits.parse::<usize>().unwrap_or(0).wrapping_sub(1), parts));
    }
    let reply = if diags.len() != order.len() { format!("UNPARSEABLE {} headers for {} diagnostics", diags.len(), order.len()) } else {
        order.iter().zip(diags.iter()).map(|(d, (g, rows))| {
            if d.labels.is_empty() { "N".to_string() }
            else if rows.is_empty() { "R".to_string() }
            else { format!("W{g}[{}]", rows.iter().map(|(n, ps)| format!("L{n}:{}", ps.join(","))).collect::<Vec<_>>().join(";")) }
        }).collect::<Vec<_>>().join(" ")
    };
    // the width table: every slice of a line between two cut points
    let mut table: std::collections::BTreeMap<String, usize> = Default::default();
    table.insert(String::new(), 0);
    let mut cuts: Vec<usize> = order.iter().flat_map(|d| d.labels.iter().flat_map(|l| [l.0.start(), l.0.end()])).collect();
    let mut pos = 0;
    for line in input.split('\n') { cuts.push(pos); cuts.push(pos + line.len()); pos += line.len() + 1; }
    cuts.sort(); cuts.dedup();
    let mut pos = 0;
    for line in input.split('\n') {
        let (a, b) = (pos, pos + line.len()); pos = b + 1;
        let here: Vec<usize> = cuts.iter().copied().filter(|c| a <= *c && *c <= b).collect();
        for x in &here { for y in &here { if x <= y { if let Some(t) = input.get(*x..*y) {
            let t = t.replace('\t', "    ");
            let w = UnicodeWidthStr::width(&*t);
            if t.chars().any(|c| unicode_width::UnicodeWidthChar::width(c).unwrap_or(0) != 1) { ctx.count("report_widths:slice with a character of width != 1"); }
            if w != t.chars().map(|c| unicode_width::UnicodeWidthChar::width(c).unwrap_or(0)).sum::<usize>() { ctx.count("report_widths:slice whose width is not the sum of its characters' widths"); }
            table.insert(r_cps(&t), w);
        } } } }
    }
    for (d, (_, rows)) in order.iter().zip(diags.iter()) {
        if !d.labels.is_empty() && !rows.is_empty() {
            ctx.count("report_widths:block");
            if d.labels.iter().any(|l| l.0.start() == l.0.end()) { ctx.count("report_widths:block with an empty label"); }
            if rows.iter().any(|(_, ps)| ps.iter().any(|p| p == "l0")) { ctx.count("report_widths:labelled part of width 0"); }
            if input.contains("\r\n") { ctx.count("report_widths:block, CRLF input"); }
        }
    }
    let enc = |d: &cooklang::error::SourceDiag| format!("{}:{}", if d.is_warning() { "W" } else { "E" },
        if d.labels.is_empty() { "-".to_string() } else { d.labels.iter().map(|l| format!("{}.{}.{}", l.0.start(), l.0.end(), if l.1.is_some() { "t" } else { "n" })).collect::<Vec<_>>().join(",") });
    let ds = rep.iter().map(enc).collect::<Vec<_>>().join(";");
    let tbl = table.iter().map(|(k, v)| format!("{k}={v}")).collect::<Vec<_>>().join(";");
    ctx.case(format!("report_widths {} {} {}", enc_text(input), ds, tbl), reply, order.iter().any(|d| !d.labels.is_empty()), format!("report_widths {desc}"));
}

pub fn one(ctx: &mut Ctx, input: &str, ext_bits: u32, full_parse: bool) {
    let ext = Extensions::from_bits_retain(ext_bits);
    let desc = format!("ext={ext_bits} input={input:?}");
    // 1. token tiling through the hook
    let toks = cooklang::parser::verif_tokens(input);
    let rendered: Vec<String> = toks.iter().map(|(k, a, b)| format!("{k}:{a}:{b}")).collect();
    ctx.case(format!("tokens_fm {}", enc_text(input)), if rendered.is_empty() { "<none>".into() } else { rendered.join(" ") }, !toks.is_empty(), desc.clone());
    {
        let mut pos = toks.first().map(|t| t.1).unwrap_or(input.len());
        for (k, a, b) in &toks {
            if *a != pos || b <= a || !input.is_char_boundary(*a) || !input.is_char_boundary(*b) || *b > input.len() {
                ctx.oracle_fail(desc.clone(), format!("token {k} {a}..{b} does not tile the input (expected start {pos})"), "c04:tiling".into());
                break;
            }
            pos = *b;
        }
        if !toks.is_empty() && pos != input.len() { ctx.oracle_fail(desc.clone(), format!("tokens end at {pos}, input has {} bytes", input.len()), "c04:tiling".into()); }
    }
    // 2. events
    let evs = guarded(|| PullParser::new(input, ext).collect::<Vec<_>>());
    let evs = match evs {
        Ok(e) => e,
        Err(p) => {
            ctx.case(format!("events {ext_bits} {}", enc_text(input)), "PANIC".into(), true, desc.clone());
            ctx.oracle_fail(desc, format!("PullParser panicked: {p}"), panic_signature(&p));
            return;
        }
    };
    for e in &evs { match e { Event::Error(d) | Event::Warning(d) => ctx.count(&format!("diag:{}", diag_kind(d))), Event::Ingredient(_) => ctx.count("ev:ingredient"), Event::Cookware(_) => ctx.count("ev:cookware"), Event::Timer(_) => ctx.count("ev:timer"), Event::Metadata { .. } => ctx.count("ev:metadata"), Event::Section { .. } => ctx.count("ev:section"), Event::YAMLFrontMatter(_) => ctx.count("ev:frontmatter"), Event::Text(_) => ctx.count("ev:text"), _ => {} } }
    ctx.case(format!("events {ext_bits} {}", enc_text(input)), r_events(&evs), evs.len() > 2, desc.clone());
    // 2b. the optional AST built from the same events
    ast_case(ctx, input, ext_bits, &desc);
    let mut spans = Vec::new(); let mut frags = Vec::new();
    for e in &evs { event_spans(e, &mut spans, &mut frags); }
    for (what, s) in &spans {
        if let Some(m) = check_span(input, what, *s) { ctx.oracle_fail(desc.clone(), m, format!("c04:span:{}", what.split(':').next().unwrap_or(what))); }
    }
    for (off, text) in &frags {
        if input.get(*off..*off + text.len()) != Some(text.as_str()) { ctx.oracle_fail(desc.clone(), format!("fragment at {off} {text:?} is not the input slice"), "c04:fragment".into()); }
    }
    let mut last_end = 0usize;
    for e in &evs {
        if let Some(s) = order_span(e) {
            if s.start() < last_end { ctx.oracle_fail(desc.clone(), format!("event span {}..{} overlaps or precedes the previous event (ended at {last_end})", s.start(), s.end()), "c04:order".into()); break; }
            last_end = s.end();
        }
    }
    // 3. full parse: labels of analysis diagnostics and report rendering
    if full_parse {
        // with user callbacks (ParseOptions): their diagnostics are labelled by the library (key position inside the
        // front matter, key/value spans, the referencing ingredient)
        {
            let parser = CooklangParser::new(ext, Converter::bundled());
            let opts = || cooklang::analysis::ParseOptions {
                recipe_ref_check: Some(Box::new(|name: &str| if name.contains('a') { cooklang::analysis::CheckResult::Error(vec!["no such recipe".into()]) } else if name.len() > 4 { cooklang::analysis::CheckResult::Warning(vec![]) } else { cooklang::analysis::CheckResult::Ok })),
                metadata_validator: Some(Box::new(|k: &serde_yaml::Value, _v: &serde_yaml::Value, o: &mut cooklang::analysis::CheckOptions| {
                    let ks = k.as_str().unwrap_or("");
                    if ks.starts_with('t') { o.run_std_checks(false); }
                    if ks.contains('e') { o.include(false); cooklang::analysis::CheckResult::Error(vec!["rejected key".into()]) } else if ks.len() % 2 == 0 { cooklang::analysis::CheckResult::Warning(vec!["even".into()]) } else { cooklang::analysis::CheckResult::Ok }
                })),
            };
            match guarded(|| (parser.parse_with_options(input, opts()).report().clone(), parser.parse_metadata_with_options(input, opts()).report().clone())) {
                Err(_) => ctx.count("parse_with_options-panicked (judged by C03, not here)"),
                Ok((r1, r2)) => {
                    for rep in [&r1, &r2] {
                        for d in rep.iter() {
                            if matches!(diag_kind(d).as_str(), "metadata-validator" | "recipe-not-found") { ctx.count(&format!("options:{}", diag_kind(d))); }
                            for l in &d.labels { if let Some(m) = check_span(input, &format!("label:{}", diag_kind(d)), l.0) { ctx.oracle_fail(format!("{desc} (with ParseOptions callbacks)"), m, format!("c04:span:label:{}", diag_kind(d))); } }
                        }
                        let mut buf = Vec::new();
                        if let Err(p) = guarded(|| rep.write("r.cook", input, false, &mut buf)) { ctx.oracle_fail(format!("{desc} (with ParseOptions callbacks)"), format!("SourceReport::write panicked: {p}"), "c04:report-render".into()); }
                    }
                }
            }
        }
        // `recipe_ref_check` against its model (lean/CookModel/Analysis/RefCheck.lean, op `recipe_rc`): the whole report
        if !crate::props::c06::has_front_matter(input) {
            let has_ref = evs.iter().any(|e| matches!(e, Event::Ingredient(i) if i.modifiers.contains(cooklang::parser::Modifiers::RECIPE)));
            let h = crate::util::hash64(input);
            if has_ref || h % 16 == 0 { ref_check_case(ctx, input, ext_bits, (h % 2) as u8, if has_ref { &[1, 2, 3] } else { &[1] }, has_ref, &desc); }
        }
        // front matter interpreted (labels of its diagnostics included) against the model of `process_frontmatter`
        if crate::props::c06::has_front_matter(input) { let h = crate::util::hash64(input); crate::fm::fm_case(ctx, input, ext_bits, (h % 2) as u8, ((h / 2) % 4) as u8); }
        for conv in [Converter::empty(), Converter::bundled()] {
            let parser = CooklangParser::new(ext, conv);
            match guarded(|| parser.parse(input)) {
                Err(_) => ctx.count("parse-panicked (judged by C03, not here)"),
                Ok(res) => {
                    for d in res.report().iter() {
                        ctx.count(&format!("report:{}", diag_kind(d)));
                        for l in &d.labels { if let Some(m) = check_span(input, &format!("label:{}", diag_kind(d)), l.0) { ctx.oracle_fail(desc.clone(), m, format!("c04:span:label:{}", diag_kind(d))); } }
                    }
                    for color in [false, true] {
                        let mut buf = Vec::new();
                        if let Err(p) = guarded(|| res.report().write("r.cook", input, color, &mut buf)) {
                            ctx.oracle_fail(desc.clone(), format!("SourceReport::write panicked: {p}"), "c04:report-render".into());
                        } else if color { report_prep_case(ctx, input, res.report(), &buf, &desc); report_widths_case(ctx, input, res.report(), &buf, &desc); }
                    }
                }
            }
        }
    }
}

/// the callbacks of the `recipe_rc` operation (lean/CookModel/Driver/RefCheck.lean, `rcChecker`)
fn ref_checker(mode: u8) -> Box<dyn FnMut(&str) -> cooklang::analysis::CheckResult> {
    use cooklang::analysis::CheckResult;
    match mode {
        1 => Box::new(|name: &str| if name.contains('a') { CheckResult::Error(vec!["no such recipe".into()]) } else if name.len() > 4 { CheckResult::Warning(vec![]) } else { CheckResult::Ok }),
        2 => Box::new(|_: &str| CheckResult::Error(vec![])),
        _ => Box::new(|name: &str| if name.len() % 2 == 1 { CheckResult::Warning(vec!["odd".into()]) } else { CheckResult::Ok }),
    }
}

/// One document without front matter under `ParseOptions { recipe_ref_check }`: the whole report (every diagnostic with
/// its labels, in order) of `parse_with_options` against the model (`RC.parseRecipeR`); oracle: the label of every
/// "Referenced recipe not found" diagnostic is the span of an ingredient event of the document.
fn ref_check_case(ctx: &mut Ctx, input: &str, ext_bits: u32, conv: u8, modes: &[u8], has_ref: bool, desc: &str) {
    let ext = Extensions::from_bits_retain(ext_bits);
    let parser = CooklangParser::new(ext, if conv == 0 { Converter::empty() } else { Converter::bundled() });
    let igr_spans: Vec<Span> = PullParser::new(input, ext).filter_map(|e| match e { Event::Ingredient(i) => Some(i.span()), _ => None }).collect();
    for &mode in modes {
        let r = guarded(|| parser.parse_with_options(input, cooklang::analysis::ParseOptions { recipe_ref_check: Some(ref_checker(mode)), metadata_validator: None }));
        let mut n = 0;
        let reply = match &r {
            Err(_) => "PANIC".to_string(),
            Ok(res) => {
                for d in res.report().iter() {
                    if diag_kind(d) == "recipe-not-found" {
                        n += 1;
                        ctx.count(&format!("refcheck:mode{mode}:{}", sev_stage(d).0));
                        if d.labels.len() != 1 || !igr_spans.contains(&d.labels[0].0) {
                            ctx.oracle_fail(format!("{desc} (recipe_ref_check callback {mode})"), format!("the label of the recipe check {:?} is not the span of an ingredient of the document", d.labels.iter().map(|l| r_span(l.0)).collect::<Vec<_>>()), "c04:refcheck:label".into());
                        }
                    }
                }
                let dstr = crate::fm::r_report(res.report(), false);
                if res.output().is_some() { format!("OUT {dstr}") } else { format!("NOOUT {dstr}") }
            }
        };
        if has_ref && n == 0 { ctx.count(&format!("refcheck:mode{mode}:reference-without-diagnostic")); }
        ctx.case(format!("recipe_rc {ext_bits} {conv} {mode} {}", enc_text(input)), reply, n > 0, format!("{desc} (recipe_ref_check callback {mode})"));
    }
}

pub fn inputs(ctx: &mut Ctx, tag: u64, f: &mut dyn FnMut(&mut Ctx, &str, u32)) {
    let mut rng = Rng::new(ctx.seed ^ tag);
    // corpus first
    for line in crate::corpus::load("syntax") { for e in [0u32, 0xEEA] { f(ctx, &line, e); } }
    // focused neighbourhood search: inputs on which model and code disagreed in the first pass
    // (written by ./check into $VERIF_FOCUS), their prefixes/suffixes and random single-token mutations
    if let Ok(path) = std::env::var("VERIF_FOCUS") {
        let focus: Vec<String> = std::fs::read_to_string(path).map(|s| s.lines().map(crate::corpus::unescape).collect()).unwrap_or_default();
        for base in focus.iter().take(40) {
            for e in [0u32, 0xEEA] { f(ctx, base, e); }
            let chars: Vec<char> = base.chars().collect();
            for cut in 1..chars.len().min(60) { let a: String = chars[..cut].iter().collect(); let b: String = chars[cut..].iter().collect(); f(ctx, &a, 0xEEA); f(ctx, &b, 0xEEA); }
            let mut cur = base.clone();
            for k in 0..400 { if k % 8 == 0 { cur = base.clone(); } cur = gen::mutate(&mut rng, &cur); f(ctx, &cur, gen::ext_pattern(rng.below(256))); f(ctx, &cur, 0xEEA); }
            // multi-byte neighbours at every position
            for pos in 0..=chars.len().min(60) { for ins in ["é", "😀", "\u{00A0}", "\n"] { let mut t: String = chars[..pos].iter().collect(); t.push_str(&crate::corpus::unescape(ins)); t.extend(chars[pos..].iter()); f(ctx, &t, 0xEEA); f(ctx, &t, 0); } }
        }
        ctx.count_n("focus-bases", focus.len().min(40) as u64);
    }
    // very long single tokens (comment, blank run, word, number) in front of ordinary content
    for long in [format!("[- {} -] a @salt{{1%g}} b\n", "x".repeat(65_531)), format!("-- {}\nServe with @rice{{}} and #chopsticks.\n", "y".repeat(70_000)),
                 format!("a{}b @x{{}} c\n", " ".repeat(66_000)), format!("{} @x{{}} tail\n", "w".repeat(66_000)), format!(">> k: v\n\n[- {} -]\n= S\n\nText é @y{{2%kg}}.\n", "é".repeat(33_000))] {
        f(ctx, &long, 0); f(ctx, &long, 0xEEA);
    }
    // exhaustive short strings over the token alphabet
    let maxlen = if ctx.thorough { 3 } else { 2 };
    let n = gen::ALPHABET.len();
    for len in 1..=maxlen {
        for idx in 0..n.pow(len as u32) {
            let s = gen::nth_string(len, idx);
            let e = gen::ext_pattern(idx % 256);
            f(ctx, &s, e);
            if len <= 2 { f(ctx, &s, 0); f(ctx, &s, 0xEEA); }
        }
    }
    // exotic characters at the very start, before and after fences, and next to every marker of a small recipe
    for ex in gen::EXOTIC {
        for base in ["---\ntitle: Crème\n---\nAdd @sal{1%g}.\n", "---\na: [\n---\nx\n", ">> a: b\n", "@a{1%kg}(n) #b ~{5%min}\n", "= s =\n\n> t\n"] {
            f(ctx, &format!("{ex}{base}"), 0xEEA); f(ctx, &format!("{ex}{base}"), 0);
            f(ctx, &base.replace("---\n", &format!("---{ex}\n")), 0xEEA);
            f(ctx, &base.replace('\n', &format!("{ex}\n")), 0xEEA);
            for m in ["@", "#", "~", "{", "}", "(", ")", "%", ">>", ":", "="] { f(ctx, &base.replace(m, &format!("{ex}{m}")), 0xEEA); f(ctx, &base.replace(m, &format!("{m}{ex}")), 0xEEA); }
        }
    }
    let (n_soup, n_rec) = if ctx.thorough { (400_000, 300_000) } else { (8_000, 8_000) };
    for i in 0..n_soup { let s = gen::soup(&mut rng, 12); f(ctx, &s, gen::ext_pattern(i % 256)); }
    // label-adjacent insertions: for inputs whose report carries labels, put zero-width / wide / multi-byte
    // characters exactly at the label boundaries (where a renderer slices the source and measures widths)
    let mut label_budget = if ctx.thorough { 6_000usize } else { 250 };
    for i in 0..n_rec {
        let mut s = gen::recipe(&mut rng);
        if i % 3 == 0 { s = gen::mutate(&mut rng, &s); }
        let e = match i % 4 { 0 => 0, 1 => 0xEEA, _ => gen::ext_pattern(rng.below(256)) };
        f(ctx, &s, e);
        if label_budget > 0 && s.len() < 400 {
            let ext = Extensions::from_bits_retain(e);
            let labels: Vec<Span> = guarded(|| CooklangParser::new(ext, Converter::bundled()).parse(&s).report().iter().flat_map(|d| d.labels.iter().map(|l| l.0).collect::<Vec<_>>()).collect::<Vec<Span>>()).unwrap_or_default();
            if labels.is_empty() { continue; }
            label_budget -= 1;
            ctx.count("label-adjacent:bases");
            let mut positions: Vec<usize> = labels.iter().take(3).flat_map(|l| [l.start(), l.end()]).filter(|p| *p <= s.len() && s.is_char_boundary(*p)).collect();
            positions.sort_unstable(); positions.dedup();
            for p in positions {
                for _ in 0..2 {
                    let ins = rng.pick_str(&["\u{200B}", "\u{0301}", "\u{FE0F}", "é", "😀", "\t", "\u{3000}", "“"]);
                    let t = format!("{}{}{}", &s[..p], ins, &s[p..]);
                    f(ctx, &t, e);
                }
            }
        }
    }
}

pub fn run(ctx: &mut Ctx) {
    ctx.rule = "inputs: corpus, all strings of <=2 (quick) / <=3 (thorough) symbols of a 47-symbol token alphabet (multi-byte chars, CRLF, fences, comments), random token soups, structured random recipes with single-token mutations; all 256 raw extension patterns round-robin; per input: token stream through the hook (tiling), PullParser events (every span + every fragment), full parse with empty and bundled converter (labels, SourceReport::write with and without colour). inputs without front matter that carry an `@@` ingredient (and a 1/16 sample of the rest): the whole report of parse_with_options under three recipe_ref_check callbacks against the model (recipe_rc). non-trivial = more than Start/End events or any token; distinct = distinct request lines".into();
    inputs(ctx, 0xC04, &mut |ctx, s, e| one(ctx, s, e, true));
    crate::fm::family(ctx, 0xC04);
}
