//! C12 (last clause) — the printing code: `Display` for `Number`, `Value`, `ScalableValue`, `Quantity`,
//! `GroupedQuantity`, `GroupedValue`, `Cookware::display_name`, and std's `Display for f64` the code relies on,
//! compared with the model (lean/CookModel/Num/Display.lean, ops `disp …`).  Called from `c12::run`.
//! No property oracle beyond "printing does not panic": the statement only speaks about the `w n/d` form, which the
//! oracle of `c12::one` already reads back.
use crate::ctx::Ctx;
use crate::props::c09::{spec_quantity, spec_value};
use crate::rng::Rng;
use crate::util::{bits, enc_text, guarded, panic_signature};
use cooklang::convert::Converter;
use cooklang::quantity::{GroupedQuantity, GroupedValue, Number, Quantity, ScalableValue, ScaledQuantity, Value};
use cooklang::{CooklangParser, Extensions};

fn spec_number(n: &Number) -> String {
    match n {
        Number::Regular(v) => format!("R{}", bits(*v)),
        Number::Fraction { whole, num, den, err } => format!("F{whole}/{num}/{den}/{}", bits(*err)),
    }
}

/// run `f` (a `format!`), compare with the model's reply to `op`
fn text_case(ctx: &mut Ctx, op: String, input: String, f: impl FnOnce() -> String) {
    match guarded(f) {
        Ok(s) => ctx.case(op, enc_text(&s), true, input),
        Err(p) => ctx.oracle_fail(input, format!("panic while printing: {p}"), panic_signature(&p)),
    }
}

fn f64_case(ctx: &mut Ctx, x: f64) {
    let input = format!("f64 {x:?} [bits {}]", x.to_bits());
    text_case(ctx, format!("disp f64 {} 0", bits(x)), format!("format!(\"{{}}\") of {input}"), || format!("{}", x));
    text_case(ctx, format!("disp f64 {} 1", bits(x)), format!("format!(\"{{:+}}\") of {input}"), || format!("{:+}", x));
    let kind = if x.is_nan() { "nan" } else if x.is_infinite() { "inf" } else if x == 0.0 { "zero" } else if x.fract() == 0.0 { "integer" }
        else if x.abs() < 1e-3 { "tiny" } else if x.abs() >= 1e15 { "huge" } else { "fractional" };
    ctx.count(&format!("display:f64:{kind}"));
    let digits = format!("{}", x.abs()).chars().filter(|c| c.is_ascii_digit()).collect::<String>().trim_matches('0').len();
    if x.is_finite() { ctx.count(&format!("display:f64:significant-digits:{}", if digits >= 17 { "17".to_string() } else if digits >= 15 { "15-16".into() } else if digits >= 4 { "4-14".into() } else { "1-3".into() })); }
}

fn number_case(ctx: &mut Ctx, n: Number) {
    let input = format!("{n:?}");
    let spec = spec_number(&n);
    text_case(ctx, format!("disp number {spec} 0"), format!("format!(\"{{}}\") of {input}"), || format!("{}", n));
    text_case(ctx, format!("disp number {spec} 1"), format!("format!(\"{{:#}}\") of {input}"), || format!("{:#}", n));
    match n {
        Number::Regular(v) => ctx.count(if !v.is_finite() { "display:number:regular-nonfinite" } else if (v * 1000.0).fract() == 0.0 { "display:number:regular-at-most-3-decimals" } else { "display:number:regular-rounded" }),
        Number::Fraction { whole, num, err, .. } => {
            let shape = if n.value() == 0.0 { "value-zero" } else { match (whole, num) { (0, 0) => "0/0", (0, _) => "n/d", (_, 0) => "w", _ => "w n/d" } };
            ctx.count(&format!("display:number:fraction:{shape}"));
            ctx.count(if err.abs() > 0.001 { "display:number:fraction:err-suffix-shown-in-alternate" } else if err == 0.0 { "display:number:fraction:err-zero" } else { "display:number:fraction:err-below-threshold" });
        }
    }
}

fn value_case(ctx: &mut Ctx, v: &Value) {
    let input = format!("{v:?}");
    let spec = spec_value(v);
    text_case(ctx, format!("disp value {spec} 0"), format!("format!(\"{{}}\") of {input}"), || format!("{}", v));
    text_case(ctx, format!("disp value {spec} 1"), format!("format!(\"{{:#}}\") of {input}"), || format!("{:#}", v));
    ctx.count(match v { Value::Number(_) => "display:value:number", Value::Range { .. } => "display:value:range", Value::Text(_) => "display:value:text" });
    for (tag, sv) in [("F", ScalableValue::Fixed(v.clone())), ("L", ScalableValue::Linear(v.clone()))] {
        text_case(ctx, format!("disp svalue {tag}{spec} 0"), format!("format!(\"{{}}\") of {sv:?}"), || format!("{}", sv));
        text_case(ctx, format!("disp svalue {tag}{spec} 1"), format!("format!(\"{{:#}}\") of {sv:?}"), || format!("{:#}", sv));
    }
}

fn quantity_case(ctx: &mut Ctx, q: &ScaledQuantity) {
    let input = format!("{q:?}");
    let spec = spec_quantity(q);
    text_case(ctx, format!("disp quantity {spec} 0"), format!("format!(\"{{}}\") of {input}"), || format!("{}", q));
    text_case(ctx, format!("disp quantity {spec} 1"), format!("format!(\"{{:#}}\") of {input}"), || format!("{:#}", q));
    ctx.count(if q.unit().is_some() { "display:quantity:with-unit" } else { "display:quantity:no-unit" });
    for (tag, lin) in [("F", false), ("L", true)] {
        let sv = if lin { ScalableValue::Linear(q.value().clone()) } else { ScalableValue::Fixed(q.value().clone()) };
        let sq = Quantity::new(sv, q.unit().map(|u| u.to_string()));
        text_case(ctx, format!("disp squantity {tag}{spec} 0"), format!("format!(\"{{}}\") of {sq:?}"), || format!("{}", sq));
        text_case(ctx, format!("disp squantity {tag}{spec} 1"), format!("format!(\"{{:#}}\") of {sq:?}"), || format!("{:#}", sq));
    }
}

fn interesting_f64(rng: &mut Rng, i: usize) -> f64 {
    let sign = if rng.chance(1, 4) { -1.0 } else { 1.0 };
    let x = match i % 12 {
        0 => rng.below(100_000) as f64,
        1 => rng.below(10_000_000) as f64 / 1000.0,
        2 => rng.unit_f64() * 10f64.powi(rng.range(-6, 6) as i32),
        3 => f64::from_bits(rng.next() >> 1),                                  // any magnitude, any mantissa
        4 => { let p = 2f64.powi(rng.range(-1074, 1023) as i32); let b = p.to_bits(); f64::from_bits((b as i64 + rng.range(-2, 2)).max(1) as u64) }   // powers of two: the rounding interval is lopsided
        5 => { let p = format!("1e{}", rng.range(-320, 308)).parse::<f64>().unwrap(); let b = p.to_bits(); f64::from_bits((b as i64 + rng.range(-3, 3)).max(1) as u64) }   // around powers of ten
        6 => f64::from_bits(rng.next() % (1u64 << 52)),                        // subnormal
        7 => (rng.next() % (1u64 << 60)) as f64,                               // integers up to and beyond 2^53
        8 => (rng.next() % (1u64 << 56)) as f64 / 1000.0,                      // what round_float returns for large inputs
        9 => 10f64.powf(rng.unit_f64() * 40.0 - 20.0),
        10 => { let d = 1 + rng.below(17); let m = rng.next() % 10u64.pow(d as u32).max(1); format!("{m}e{}", rng.range(-30, 30)).parse::<f64>().unwrap() }   // short decimals
        _ => rng.below(3000) as f64 + [0.0005, 0.0015, 0.00049999, 0.0004999999999, 0.9995, 0.99949999, 0.5, 0.25, 0.125, 0.001, 0.0001][rng.below(11)],
    };
    sign * x
}

pub fn run(ctx: &mut Ctx) {
    let mut rng = Rng::new(ctx.seed ^ 0xC12D15);
    let corners = [0.0, -0.0, f64::NAN, -f64::NAN, f64::from_bits(0x7ff0000000000001), f64::INFINITY, f64::NEG_INFINITY, f64::MIN_POSITIVE, f64::from_bits(1), f64::MAX, f64::MIN,
        f64::EPSILON, 1.0, -1.0, 0.1, 0.2, 0.1 + 0.2, 0.3, 1e15, 1e16, 1e17, 1e21, 1e22, 1e23, 9007199254740992.0, 9007199254740993.0, 9007199254740994.0, 123456789012345680.0,
        0.001, 0.0005, 0.00049, 0.0015, -0.0004, -0.0005, 14.57893, 14.0, 2.501, 1e-7, 5e-324, 2.2250738585072014e-308, 2.225073858507201e-308, 1.7976931348623157e308, 4.35, 0.285, 1.005, 2.675,
        9.999999999999999e22, 8.41e21, 2.0f64.powi(-1074), 2.0f64.powi(1023), 2.0f64.powi(53), 2.0f64.powi(-24), 5e-5, 99999.9995, 0.9999, 0.99949, 0.9995];
    // ---- std's `Display for f64`, directly
    for &x in &corners { f64_case(ctx, x); }
    let n_f = if ctx.thorough { 400_000 } else { 12_000 };
    for i in 0..n_f { let x = interesting_f64(&mut rng, i); f64_case(ctx, x); }
    // ---- numbers
    for &x in &corners { number_case(ctx, Number::Regular(x)); }
    let n_n = if ctx.thorough { 300_000 } else { 8_000 };
    for i in 0..n_n { let x = interesting_f64(&mut rng, i); number_case(ctx, Number::Regular(x)); }
    // hand-made fractions: every arm of the `match (whole, num, den)`, the `value() == 0` return, the suffix threshold
    let errs = [0.0, -0.0, 0.001, -0.001, 0.0010000000000000002, -0.0010000000000000002, 0.0009999, 0.0015, -0.0015, 0.00149999, 0.0005, 0.004, -0.0333, 0.5, -0.5, -1.0, -1.5, -2.0, 1e-12, 123.4567, -0.0004, f64::NAN, f64::INFINITY, f64::NEG_INFINITY, 1e300];
    for &(w, n, d) in &[(0u32, 0u32, 1u32), (0, 0, 0), (0, 1, 2), (0, 3, 4), (0, 1, 0), (1, 0, 1), (1, 0, 0), (2, 1, 3), (7, 5, 8), (1, 1, 2), (u32::MAX, u32::MAX, u32::MAX), (0, 7, 3), (3, 2, 2), (1, 1, 0), (12, 0, 5)] {
        for &e in &errs { number_case(ctx, Number::Fraction { whole: w, num: n, den: d, err: e }); }
    }
    // fractions as `new_approx` makes them (with and without a recorded error)
    let mut made: Vec<Number> = vec![];
    let n_a = if ctx.thorough { 200_000 } else { 6_000 };
    for i in 0..n_a {
        let v = match i % 3 { 0 => rng.below(9600 * 6) as f64 / 9600.0, 1 => rng.unit_f64() * 30.0, _ => rng.below(40) as f64 + [0.5, 0.25, 0.75, 1.0 / 3.0, 2.0 / 3.0, 0.125, 0.1, 0.0625][rng.below(8)] + (rng.unit_f64() - 0.5) * 10f64.powi(-(1 + rng.below(5) as i32)) };
        let acc = *rng.pick(&[0.0f32, 0.01, 0.05, 0.1, 0.5, 1.0]);
        let md = *rng.pick(&[2u8, 3, 4, 8, 10, 16, 64]);
        let mw = *rng.pick(&[0u32, 5, 1000, u32::MAX]);
        if let Ok(Some(n)) = guarded(|| Number::new_approx(v, acc, md, mw)) { number_case(ctx, n); if made.len() < 4000 { made.push(n); } }
    }
    // ---- values, quantities
    let units = [None, Some("g"), Some("kg"), Some("ml"), Some("cup"), Some("tsp"), Some("bunch"), Some(""), Some("fl oz"), Some("°C"), Some("a-b (c)")];
    let texts = ["", "a pinch", "1-2", "some (+0.003)", "½", "x\ny"];
    let pick_number = |rng: &mut Rng, made: &Vec<Number>, i: usize| -> Number {
        if !made.is_empty() && rng.chance(1, 2) { *rng.pick(made) } else { Number::Regular(interesting_f64(rng, i)) }
    };
    let n_v = if ctx.thorough { 150_000 } else { 4_000 };
    for i in 0..n_v {
        let v = match rng.below(5) {
            0 | 1 => Value::Number(pick_number(&mut rng, &made, i)),
            2 | 3 => Value::Range { start: pick_number(&mut rng, &made, i), end: pick_number(&mut rng, &made, i + 1) },
            _ => Value::Text(rng.pick(&texts).to_string()),
        };
        value_case(ctx, &v);
        let q = Quantity::new(v, rng.pick(&units).map(|u| u.to_string()));
        quantity_case(ctx, &q);
    }
    // ---- groups: `display_comma_separated`
    let conv = Converter::bundled();
    let n_g = if ctx.thorough { 60_000 } else { 2_000 };
    for i in 0..n_g {
        let k = rng.below(6);
        let vs: Vec<Value> = (0..k).map(|j| match rng.below(6) { 0 => Value::Text(rng.pick(&texts).to_string()), 1 => Value::Range { start: Number::Regular(rng.below(50) as f64 / 8.0), end: pick_number(&mut rng, &made, i + j) }, _ => Value::Number(pick_number(&mut rng, &made, i + j)) }).collect();
        let input = format!("GroupedValue of {vs:?}");
        let spec = vs.iter().map(spec_value).collect::<Vec<_>>().join(" ");
        match guarded(|| { let mut g = GroupedValue::empty(); for v in &vs { g.add(v); } g }) {
            Ok(g) => {
                text_case(ctx, format!("disp gvalue {spec}"), format!("format!(\"{{}}\") of {input}"), || format!("{}", g));
                text_case(ctx, format!("disp gvalue {spec}"), format!("format!(\"{{:#}}\") of {input}"), || format!("{:#}", g));
                ctx.count(&format!("display:grouped-value:len-{}", g.len().min(3)));
            }
            Err(p) => ctx.oracle_fail(input, format!("panic {p}"), panic_signature(&p)),
        }
        // at most one unknown unit key per group: the iteration order of the hash map is not reproducible
        let unknown = *rng.pick(&["bunch", "clove", "fl oz"]);
        let qs: Vec<ScaledQuantity> = vs.iter().map(|v| Quantity::new(v.clone(), rng.pick(&[None, Some("g"), Some("kg"), Some("ml"), Some("cup"), Some("tsp"), Some("min"), Some(unknown)]).map(|u| u.to_string()))).collect();
        let input = format!("GroupedQuantity of {qs:?}");
        let spec = qs.iter().map(spec_quantity).collect::<Vec<_>>().join(" ");
        match guarded(|| { let mut g = GroupedQuantity::empty(); for q in &qs { g.add(q, &conv); } g }) {
            Ok(g) => {
                text_case(ctx, format!("disp group {spec}"), format!("format!(\"{{}}\") of {input}"), || format!("{}", g));
                text_case(ctx, format!("disp group {spec}"), format!("format!(\"{{:#}}\") of {input}"), || format!("{:#}", g));
                ctx.count(&format!("display:grouped-quantity:len-{}", g.len().min(4)));
            }
            Err(p) => ctx.oracle_fail(input, format!("panic {p}"), panic_signature(&p)),
        }
    }
    // ---- Cookware::display_name
    let parser = CooklangParser::new(Extensions::all(), Converter::bundled());
    if let Some(r) = parser.parse("#pot{}").into_output() {
        let r = r.default_scale();
        if let Some(c0) = r.cookware.first() {
            for name in ["pot", "", "a/b.c", "big pan", "é"] {
                for alias in [None, Some(""), Some("al"), Some("pot")] {
                    let mut c = c0.clone();
                    c.name = name.to_string(); c.alias = alias.map(|a| a.to_string());
                    let input = format!("Cookware::display_name of name {name:?} alias {alias:?}");
                    let a = match alias { None => "~".to_string(), Some(a) => enc_text(a) };
                    text_case(ctx, format!("disp cwname {} {a}", enc_text(name)), input, || c.display_name().to_string());
                    ctx.count(if alias.is_some() { "display:cookware-name:alias" } else { "display:cookware-name:name" });
                }
            }
        } else { ctx.notes.push("display: `#pot{}` gave no cookware; Cookware::display_name not exercised".into()); }
    }
}
