//! C18 Parsing is deterministic, stateless across calls and thread-safe.
use crate::ctx::Ctx;
use crate::render::*;
use crate::rng::Rng;
use crate::util::enc_text;
use cooklang::{Converter, CooklangParser, Extensions};
use std::sync::{Arc, Barrier};

fn assert_sync<T: Sync + Send>() {}

fn image(p: &CooklangParser, input: &str) -> String {
    match std::panic::catch_unwind(std::panic::AssertUnwindSafe(|| p.parse(input))) {
        Ok(res) => {
            let fm = crate::props::c06::has_front_matter(input);
            let json = res.output().map(|r| serde_json::to_string(r).unwrap_or_default()).unwrap_or_default();
            let all: Vec<String> = res.report().iter().map(|d| format!("{}|{}", r_diag_full(d), d.message)).collect();
            format!("{}\u{1}{json}\u{1}{}", r_analysis(&res, fm), all.join(";"))
        }
        Err(_) => "PANIC".into(),
    }
}

/// what `parse_metadata` returns (metadata map in order + ordered diagnostics)
fn image_meta(p: &CooklangParser, input: &str) -> String {
    match std::panic::catch_unwind(std::panic::AssertUnwindSafe(|| p.parse_metadata(input))) {
        Ok(res) => {
            let map = res.output().map(|m| m.map.iter().map(|(k, v)| format!("{k:?}={v:?}")).collect::<Vec<_>>().join(",")).unwrap_or_else(|| "NOOUT".into());
            let all: Vec<String> = res.report().iter().map(|d| format!("{}|{}", r_diag_full(d), d.message)).collect();
            format!("{map}\u{1}{}", all.join(";"))
        }
        Err(_) => "PANIC".into(),
    }
}

/// what `parse_with_options` returns with a reference checker and a metadata validator that depend on their arguments only
fn image_opts(p: &CooklangParser, input: &str) -> String {
    let opts = cooklang::analysis::ParseOptions {
        recipe_ref_check: Some(Box::new(|name: &str| if name.contains('e') || name.contains('a') { cooklang::analysis::CheckResult::Error(vec!["no such recipe".into()]) } else { cooklang::analysis::CheckResult::Warning(vec!["unchecked".into()]) })),
        metadata_validator: Some(Box::new(|k: &serde_yaml::Value, _v: &serde_yaml::Value, _o: &mut cooklang::analysis::CheckOptions| if k.as_str().map_or(false, |k| k.starts_with('z')) { cooklang::analysis::CheckResult::Warning(vec!["z key".into()]) } else { cooklang::analysis::CheckResult::Ok })),
    };
    match std::panic::catch_unwind(std::panic::AssertUnwindSafe(|| p.parse_with_options(input, opts))) {
        Ok(res) => {
            let json = res.output().map(|r| serde_json::to_string(r).unwrap_or_default()).unwrap_or_default();
            let all: Vec<String> = res.report().iter().map(|d| format!("{}|{}", r_diag_full(d), d.message)).collect();
            format!("{}\u{1}{json}\u{1}{}", res.is_valid(), all.join(";"))
        }
        Err(_) => "PANIC".into(),
    }
}

/// One `parse_with_options` with BOTH callbacks of `image_opts` against the model (`RV.parseRecipeRV`, operation
/// `recipe_rv` of lean/CookModel/Driver/RefCheckValidator.lean): recipe, metadata mapping, servings and every
/// diagnostic with its labels in report order; documents with and without front matter.
fn both_case(ctx: &mut Ctx, p: &CooklangParser, input: &str, ext_bits: u32, conv: u8) {
    use cooklang::analysis::{CheckOptions, CheckResult, ParseOptions};
    use cooklang::parser::{Event, PullParser};
    let Ok(first) = std::panic::catch_unwind(std::panic::AssertUnwindSafe(|| PullParser::new(input, Extensions::empty()).next().and_then(|e| match e { Event::YAMLFrontMatter(t) => Some(t.text().into_owned()), _ => None }))) else { return };
    let (fm_arg, yaml_failed) = match first {
        None => ("-".to_string(), false),
        Some(yaml) => match serde_yaml::from_str::<serde_yaml::Mapping>(&yaml) {
            Ok(m) => {
                let whole = serde_yaml::Value::Mapping(m);
                if crate::fm::has_tag(&whole) || crate::fm::huge_exp(&whole) { ctx.count("mode-g-both:skipped (tagged value / huge exponent in front matter)"); return; }
                (format!("M{}", crate::fm::enc_yaml(&whole)), false)
            }
            Err(e) => (format!("E{}", e.location().map(|l| l.index().to_string()).unwrap_or("~".into())), true),
        },
    };
    let opts = ParseOptions {
        recipe_ref_check: Some(Box::new(|name: &str| if name.contains('e') || name.contains('a') { CheckResult::Error(vec!["no such recipe".into()]) } else { CheckResult::Warning(vec!["unchecked".into()]) })),
        metadata_validator: Some(Box::new(|k: &serde_yaml::Value, _v: &serde_yaml::Value, _o: &mut CheckOptions| if k.as_str().map_or(false, |k| k.starts_with('z')) { CheckResult::Warning(vec!["z key".into()]) } else { CheckResult::Ok })),
    };
    let r = std::panic::catch_unwind(std::panic::AssertUnwindSafe(|| p.parse_with_options(input, opts)));
    let (mut refs, mut vals) = (0, 0);
    let reply = match &r {
        Err(_) => "PANIC".to_string(),
        Ok(res) => {
            for d in res.report().iter() { match diag_kind(d).as_str() { "recipe-not-found" => refs += 1, "metadata-validator" => vals += 1, _ => {} } }
            let dstr = crate::fm::r_report(res.report(), yaml_failed);
            match res.output() {
                None => format!("NOOUT {dstr}"),
                Some(rec) => {
                    let servings = match rec.servings() { Some(a) => format!("[{}]", a.iter().map(|x| x.to_string()).collect::<Vec<_>>().join(", ")), None => "-".into() };
                    format!("OUT {} {} servings={servings} {dstr}", r_recipe(rec, false), crate::fm::r_meta(&rec.metadata.map))
                }
            }
        }
    };
    ctx.count(&format!("mode-g-both:{}:ref-diags={}:validator-diags={}", if fm_arg == "-" { "no-front-matter" } else { "front-matter" }, refs.min(2), vals.min(2)));
    ctx.case(format!("recipe_rv {ext_bits} {conv} {fm_arg} {}", enc_text(input)), reply, refs + vals > 0, format!("parse_with_options with both callbacks: ext={ext_bits} conv={conv} input={input:?}"));
}

/// a tracing subscriber that enables every level and target and throws everything away: ambient process state a parse
/// must not depend on
struct AllOn;
impl tracing::Subscriber for AllOn {
    fn enabled(&self, _: &tracing::Metadata<'_>) -> bool { true }
    fn new_span(&self, _: &tracing::span::Attributes<'_>) -> tracing::span::Id { tracing::span::Id::from_u64(1) }
    fn record(&self, _: &tracing::span::Id, _: &tracing::span::Record<'_>) {}
    fn record_follows_from(&self, _: &tracing::span::Id, _: &tracing::span::Id) {}
    fn event(&self, _: &tracing::Event<'_>) {}
    fn enter(&self, _: &tracing::span::Id) {}
    fn exit(&self, _: &tracing::span::Id) {}
}

pub fn run(ctx: &mut Ctx) {
    assert_sync::<CooklangParser>();
    ctx.rule = "a list of inputs (well-formed recipes, structured recipes, soups) is parsed (a) by a fresh parser per input, (b) in random orders with repetitions on one parser, (c) from 2..16 threads sharing one parser (barrier start, shuffled per thread), (g) with callbacks after failing parses on the thread and under an ambient tracing subscriber, both converters and several extension sets; the JSON image of the recipe and the ordered diagnostics (with messages) must be identical in all modes; mode (a) is also compared with the model. non-trivial = input with components or diagnostics".into();
    let mut rng = Rng::new(ctx.seed ^ 0xC18);
    let rounds = if ctx.thorough { 60 } else { 4 };
    let per = if ctx.thorough { 3000 } else { 500 };
    for round in 0..rounds {
        let ext_bits = match round % 4 { 0 => 0xEEA, 1 => 0, 2 => crate::gen::ext_pattern(rng.below(256)), _ => 0xAEA };
        let conv = (round % 2) as u8;
        let mk = || CooklangParser::new(Extensions::from_bits_retain(ext_bits), if conv == 0 { Converter::empty() } else { Converter::bundled() });
        let inputs: Vec<String> = (0..per).map(|i| match i % 3 { 0 => crate::wf::spell(&crate::wf::generate(&mut rng, i % 2 == 0), &crate::wf::Style::plain()), 1 => crate::gen::recipe(&mut rng), _ => crate::gen::soup(&mut rng, 10) }).collect();
        // inputs whose diagnostics are assembled from several map entries (an iteration order that leaks shows as
        // reordered labels / diagnostics between two parses of the same text)
        let mut inputs = inputs;
        for s in [">> prep time: 5 min\n>> cook time: 10 min\n>> time: 20 min\n\nMix @a{}.\n", ">> time: 20 min\n>> prep time: 5 min\n>> cook time: 10 min\n",
                  "---\nprep time: 5 min\ncook time: 10 min\ntime: 20 min\n---\nMix.\n", "---\ntime: 20 min\ncook time: 1h\nprep time: 5 min\nservings: a few\ntags: [a, b]\nlocale: zz_\n---\nMix.\n",
                  ">> servings: x\n>> time: y\n>> locale: zzz\n>> prep time: z\n>> cook time: w\n>> author: <>\n>> source: <>\n",
                  ">> a: 1\n>> b: 2\n>> c: 3\n>> d: 4\n>> e: 5\n>> f: 6\n>> g: 7\n>> h: 8\n>> i: 9\n",
                  "@x{1%kg} then @&x{500%ml} and @&x{some} and @&x{1%lb} and @y{1%l} then @&y{2%kg}", "@a{1%l} @&a{1%kg} @&a{1%cup} @&a{1%g} @&a{2} @&a{x}",
                  // the same template with different words at the same byte positions (a memo keyed by position would mix them up)
                  "Add @olive  oil{1%tbsp} now.", "Add @white  rum{1%tbsp} now.", "Add @clear  gin{1%tbsp} now.", "= My  part\n\nMix #big  pot{}.", "= Go  home\n\nMix #red  pan{}.",
                  ">> a  b: c  d\n\nx", ">> e  f: g  h\n\nx"] {
            inputs.push(s.to_string());
        }
        // characters whose code points agree in their low 8 / 16 bits but differ in lexical class (a memo of the character
        // classes keyed by part of the code point would confuse them): the astral / shifted ones first, then the BMP ones
        if round == 0 {
            let bases: [u32; 12] = [0xB7, 0xAB, 0x2014, 0xA1, 0xA0, 0x2003, 0x3000, 0xE9, 0x5F, 0x2D, 0x3001, 0x37E];
            let mut first: Vec<String> = Vec::new(); let mut later: Vec<String> = Vec::new();
            for b in bases {
                let Some(c) = char::from_u32(b) else { continue };
                for off in [0x10000u32, 0x20000, 0xF0000, 0x100, 0x1000, 0x300] {
                    if let Some(a) = char::from_u32(b + off) { first.push(format!("Stir{a} gently a{a}b.\n")); }
                }
                later.push(format!("@salt{c}pepper a{c}b @salt{c}pepper{{}} x{c}\n"));
            }
            let mut all = first; all.extend(later); all.extend(inputs.drain(..)); inputs = all;
        }
        // inputs that end in blank, whitespace-only or comment-only lines, and metadata-only documents (the two entry points
        // `parse` and `parse_metadata` are interleaved on one parser below)
        // a document whose metadata names a locale, next to documents with numbers a locale could read differently
        for s in ["---\nlocale: es_ES\n---\nMezclar @harina{1%kg}.\n", "Mix @flour{1,5%kg} and @salt{2,25} for ~{1,5%min}.\n", "---\nlocale: de_DE\n---\n@Mehl{1,5%kg}\n", ">> locale: fr_FR\n\n@farine{2,5%kg} à 180 °C, 1.000 g\n", "@a{1.5%kg} @b{1,000%g} 2,5 kg\n"] { inputs.push(s.to_string()); }
        for s in ["Boil the @eggs{2}.\n\n\n", "\n", "  \n\t\n", "Mix.\n-- c\n[- d -]\n\n", "\n>> title: Soup\n>> servings: 4\n", ">> title: Bread\n>> time: 1h\n\nKnead.\n", "---\ntitle: x\n---\n\n\n", "a\n\n\n\n>> k: v\n"] { inputs.push(s.to_string()); }
        // (a) fresh parser per input (+ model)
        let fresh: Vec<String> = inputs.iter().map(|s| image(&mk(), s)).collect();
        let fresh_meta: Vec<String> = inputs.iter().map(|s| image_meta(&mk(), s)).collect();
        for (s, img) in inputs.iter().zip(fresh.iter()) {
            let reply = img.split('\u{1}').next().unwrap_or("").to_string();
            ctx.case(format!("recipe {ext_bits} {conv} {}", enc_text(s)), reply.clone(), reply.contains("I(") || reply.contains("diags=[E") || reply.contains("diags=[W"), format!("ext={ext_bits} conv={conv} input={s:?}"));
        }
        // (b) one parser, random order with repetitions
        let shared = mk();
        let mut order: Vec<usize> = (0..inputs.len()).chain(0..inputs.len() / 2).collect();
        rng.shuffle(&mut order);
        for &i in &order {
            ctx.eval("", false);
            // both entry points, in either order, on the same parser
            let which = rng.below(4);
            if which != 0 {
                let img = image(&shared, &inputs[i]);
                if img != fresh[i] { ctx.oracle_fail(format!("sequential reuse: ext={ext_bits} conv={conv} input={:?}", inputs[i]), format!("result on a reused parser differs from a fresh parser\nfresh: {}\nreused: {img}", fresh[i]), "c18:history".into()); }
            }
            if which != 1 {
                let img = image_meta(&shared, &inputs[i]);
                if img != fresh_meta[i] { ctx.oracle_fail(format!("sequential reuse (parse_metadata after other calls): ext={ext_bits} conv={conv} input={:?}", inputs[i]), format!("parse_metadata on a reused parser differs from a fresh parser\nfresh: {}\nreused: {img}", fresh_meta[i]), "c18:history-metadata".into()); }
            }
        }
        ctx.count_n("mode-b-parses", order.len() as u64);
        // (c) threads sharing one parser
        let nthreads = 2 + rng.below(15);
        let shared = Arc::new(mk());
        let inputs_a = Arc::new(inputs.clone());
        let barrier = Arc::new(Barrier::new(nthreads));
        let mut handles = Vec::new();
        for t in 0..nthreads {
            let (p, ins, b) = (shared.clone(), inputs_a.clone(), barrier.clone());
            let mut trng = rng.fork(t as u64);
            handles.push(std::thread::spawn(move || {
                let mut ord: Vec<usize> = (0..ins.len()).collect();
                trng.shuffle(&mut ord);
                b.wait();
                ord.into_iter().map(|i| (i, image(&p, &ins[i]))).collect::<Vec<_>>()
            }));
        }
        for h in handles {
            for (i, img) in h.join().unwrap_or_default() {
                ctx.eval("", false);
                if img != fresh[i] { ctx.oracle_fail(format!("{nthreads} threads sharing a parser: ext={ext_bits} conv={conv} input={:?}", inputs[i]), format!("result differs from a fresh parser\nfresh: {}\nthread: {img}", fresh[i]), "c18:threads".into()); }
            }
        }
        ctx.count_n("mode-c-parses", (nthreads * inputs.len()) as u64);
        ctx.count(&format!("threads:{nthreads}"));
        // (f) the documented constructors: `extended()`, `canonical()`, `default()` are the parsers `new` builds with the
        // documented extensions and converter, from their FIRST call on, whichever entry point is called first
        if round == 0 {
            let probes = ["---\nprep time: 45 mins\n---\n", ">> time: 1h 30m\n>> cook time: 2 m\n", "---\ntime: 90 minutes\nservings: 2\n---\nWait ~{5%min} with @a{1%kg}.\n", "@a{2%cups} ~{1%hour}\n"];
            let ctors: [(&str, fn() -> CooklangParser, fn() -> CooklangParser); 3] = [
                ("extended()", CooklangParser::extended, || CooklangParser::new(Extensions::all(), Converter::bundled())),
                ("canonical()", CooklangParser::canonical, || CooklangParser::new(Extensions::empty(), Converter::empty())),
                ("default()", CooklangParser::default, || CooklangParser::new(Extensions::default(), Converter::default())),
            ];
            for (name, ctor, reference) in ctors {
                let r = reference();
                let want: Vec<(String, String)> = probes.iter().map(|s| (image_meta(&r, s), image(&r, s))).collect();
                for order in 0..3 {
                    // a new parser each time: metadata first, recipe first, or converter() first
                    let p = ctor();
                    for (i, s) in probes.iter().enumerate() {
                        let got = match order { 0 => { let m = image_meta(&p, s); let f = image(&p, s); (m, f) } 1 => { let f = image(&p, s); let m = image_meta(&p, s); (m, f) } _ => { let _ = p.converter().unit_count(); (image_meta(&p, s), image(&p, s)) } };
                        let again = image_meta(&p, s);
                        ctx.eval("", false);
                        if got != want[i] || again != want[i].0 {
                            ctx.oracle_fail(format!("CooklangParser::{name}, call order {order}, input={s:?}"), format!("differs from the parser `new` builds with the documented extensions and converter\nwant: {:?}\ngot:  {:?}\nparse_metadata again: {again}", want[i], got), "c18:constructors".into());
                        }
                    }
                }
                ctx.count("mode-f-constructors");
            }
        }
        // (e) one parser VARIABLE that is assigned parsers with different converters in turn (each new parser takes the place
        // of the previous one in memory): what a parse returns depends on the converter of the parser asked, not on the
        // converters earlier parsers at that place had
        if round % 2 == 1 {
            use cooklang::convert::units_file::{Extend, ExtendUnitEntry, UnitsFile};
            let ext = Extensions::from_bits_retain(ext_bits);
            let rebased_time = || {
                let mut m = std::collections::HashMap::new();
                for (k, r) in [("second", 1000.0), ("minute", 60000.0), ("hour", 3600000.0), ("day", 86400000.0)] { m.insert(k.to_string(), ExtendUnitEntry { ratio: Some(r), ..Default::default() }); }
                let layer = UnitsFile { default_system: None, si: None, fractions: None, extend: Some(Extend { precedence: Default::default(), units: m }), quantity: vec![] };
                Converter::builder().with_bundled_units().ok()?.with_units_file(layer).ok()?.finish().ok()
            };
            // the bundled units with the minute renamed (no unit answers to `min` any more)
            let renamed = || {
                use cooklang::convert::units_file::{BestUnits, Units};
                let mut file = UnitsFile::bundled();
                for group in &mut file.quantity {
                    if group.quantity != cooklang::convert::PhysicalQuantity::Time { continue; }
                    let entries: Vec<&mut cooklang::convert::units_file::UnitEntry> = match &mut group.units {
                        Some(Units::Unified(v)) => v.iter_mut().collect(),
                        Some(Units::BySystem { metric, imperial, unspecified }) => metric.iter_mut().chain(imperial.iter_mut()).chain(unspecified.iter_mut()).collect(),
                        None => vec![],
                    };
                    let mut best: Vec<String> = Vec::new();
                    for e in entries {
                        if e.symbols.iter().any(|x| &**x == "min") || e.names.iter().any(|x| &**x == "minute") {
                            e.names = vec!["minuto".into(), "minutos".into()]; e.symbols = vec!["mn".into()]; e.aliases = vec![];
                        }
                        if let Some(k) = e.symbols.first().or(e.names.first()) { best.push(k.to_string()); }
                    }
                    if group.best.is_some() { group.best = Some(BestUnits::Unified(best)); }
                }
                Converter::builder().with_units_file(file).ok()?.finish().ok()
            };
            // two units whose keys differ only in letter case (`st` stone, `St` stick): a lookup that ignores case has to choose
            let case_twins = || {
                let text = "[[quantity]]\nquantity = \"mass\"\n[quantity.units]\nimperial = [{ names = [\"stone\"], symbols = [\"st\"], ratio = 6350.29318 }]\n\n[[quantity]]\nquantity = \"volume\"\n[quantity.units]\nimperial = [{ names = [\"stick\"], symbols = [\"St\"], ratio = 0.1183 }]\n";
                let layer: UnitsFile = toml::from_str(text).ok()?;
                Converter::builder().with_bundled_units().ok()?.with_units_file(layer).ok()?.finish().ok()
            };
            let kinds: Vec<Box<dyn Fn() -> Option<Converter>>> = vec![Box::new(|| Some(Converter::bundled())), Box::new(rebased_time), Box::new(renamed), Box::new(|| Some(Converter::empty())), Box::new(case_twins),
                Box::new(|| crate::props::c09::alt_world().map(|w| w.conv))];
            let probes = ["---\nprep time: 20 min\n---\nx\n", "---\nprep time: 20 minutos\ncook time: 1 h\n---\nx\n", ">> time: 1 hour 30 min\n\nWait ~{5%min} and ~{2%mn}.\n", "---\ntime: 90 min\n---\n@a{1%kg} ~{1%h}\n", ">> cook time: 2 horas\n", "Melt the @butter{1%ST}.\n\nAdd more @&butter{100%g} if needed and ~{2%ST}.\n", "@x{1%st} @&x{1%St} @y{1%KG} @&y{1%kg} ~{1%MIN}\n"];
            // reference: one parser per converter, all alive at the same time (so each at its own place)
            let ref_parsers: Vec<Option<Box<CooklangParser>>> = kinds.iter().map(|k| k().map(|c| Box::new(CooklangParser::new(ext, c)))).collect();
            // (the image here also carries what the time / servings accessors of the returned metadata say under the parser's converter)
            let image_e = |p: &CooklangParser, s: &str| -> String {
                let acc = std::panic::catch_unwind(std::panic::AssertUnwindSafe(|| { let r = p.parse(s); r.output().map(|o| format!("{:?}|{:?}", o.metadata.time(p.converter()), o.metadata.servings())).unwrap_or_default() })).unwrap_or_else(|_| "PANIC".into());
                format!("{}\u{1}{acc}", image(p, s))
            };
            let mut reference: Vec<Option<Vec<String>>> = ref_parsers.iter().map(|p| p.as_ref().map(|p| probes.iter().map(|s| image_e(p, s)).collect())).collect();
            let mut slot = CooklangParser::new(ext, Converter::empty());
            let n_alt = if ctx.thorough { 400 } else { 40 };
            for step in 0..n_alt {
                let k = if step < kinds.len() { step } else { rng.below(kinds.len()) };
                let Some(conv) = kinds[k]() else { continue };
                slot = CooklangParser::new(ext, conv);
                let imgs: Vec<String> = probes.iter().map(|p| image_e(&slot, p)).collect();
                ctx.eval("", false);
                match &reference[k] {
                    None => reference[k] = Some(imgs),
                    Some(want) => for (i, (a, b)) in imgs.iter().zip(want.iter()).enumerate() { if a != b {
                        ctx.oracle_fail(format!("parser variable re-assigned (step {step}, converter kind {k}): ext={ext_bits} input={:?}", probes[i]), format!("the result differs from that of a parser built with the same converter that lives elsewhere\nother: {b}\nnow:   {a}"), "c18:history".into());
                    } },
                }
            }
            ctx.count_n("mode-e-parser-replacements", n_alt as u64);
        }
        // (g) ambient state of the thread and the process. (g1) `parse_with_options` with callbacks that depend on their
        // arguments only, after all the calls above on this thread (many of them ended in parser errors) and after directed
        // failing parses through each entry point, against the same call on a thread that never parsed anything;
        // (g2) the same parses while a tracing subscriber that enables every level is the default of the thread, and again
        // after it is gone
        {
            let mut sel: Vec<String> = ["Cover with @@pesto{}.\n", "Use @@./sauces/tomato{1} and @@base{}.\n", "@@stock{2%l}\n\n@&stock{1%l}\n", ">> zkey: 1\n\nServe with @@bread{}.\n", "---\nzz: 1\ntitle: t\n---\n@@dip{} and @salt{}.\n",
                "Add @salt{1/0%g} and @sugar{2/0%g}.\n\n>> broken line\n\nThen @oil{3/0%ml}.\n", "@a{1/0} @b{2/0}", "@a{1/0}\n\n@b{}{}\n\n@c{2/0}(\n", ">>: x\n\n@@pesto{}\n\n>>: y\n"].iter().map(|s| s.to_string()).collect();
            let step = (inputs.len() / 40).max(1);
            sel.extend(inputs.iter().step_by(step).cloned());
            sel.extend(inputs.iter().filter(|s| s.contains("@@")).take(40).cloned());
            let reference: Vec<(String, String)> = sel.iter().map(|s| { let (s2, e, c) = (s.clone(), ext_bits, conv);
                std::thread::spawn(move || { let p = CooklangParser::new(Extensions::from_bits_retain(e), if c == 0 { Converter::empty() } else { Converter::bundled() }); (image_opts(&p, &s2), image(&p, &s2)) }).join().unwrap_or_default() }).collect();
            let shared = mk();
            for bad in ["Add @salt{1/0%g}", "@x{1/0} @y{2/0}"] { let _ = image(&shared, bad); let _ = image_opts(&shared, bad); let _ = image_meta(&shared, ">>: x"); }
            for (s, (want_opts, want)) in sel.iter().zip(reference.iter()) {
                ctx.eval("", false);
                let got = image_opts(&shared, s);
                if &got != want_opts { ctx.oracle_fail(format!("parse_with_options after other calls on the thread: ext={ext_bits} conv={conv} input={s:?}"), format!("result differs from the same call on a thread that never parsed\nfresh thread: {want_opts}\nthis thread: {got}"), "c18:thread-state".into()); }
                let _ = image(&shared, "@bad{1/0}");
            }
            ctx.count_n("mode-g1-parse-with-options", sel.len() as u64);
            // (g3) the same call against the model with both callbacks threaded through one fold (`RV.parseRecipeRV`)
            for s in sel.iter() { both_case(ctx, &shared, s, ext_bits, conv); }
            for (s, (want_opts, want)) in sel.iter().zip(reference.iter()) {
                ctx.eval("", false);
                let (got, got_opts) = tracing::subscriber::with_default(AllOn, || (image(&shared, s), image_opts(&shared, s)));
                if &got != want || &got_opts != want_opts { ctx.oracle_fail(format!("parse under a tracing subscriber that enables every level: ext={ext_bits} conv={conv} input={s:?}"), format!("result differs from the parse without a subscriber\nwithout: {want}\nwith: {got}"), "c18:ambient-subscriber".into()); }
                let after = image(&shared, s);
                if &after != want { ctx.oracle_fail(format!("parse after a tracing subscriber was installed and removed: ext={ext_bits} conv={conv} input={s:?}"), format!("result differs from the parse before\nbefore: {want}\nafter: {after}"), "c18:ambient-subscriber".into()); }
            }
            ctx.count_n("mode-g2-parses-under-subscriber", sel.len() as u64);
        }
        // (d) contention on the converter: few inputs, each dense in look-ups of DIFFERENT short units, many
        // threads hammering one parser (a shared memo/cache inside the converter would tear here)
        if conv == 1 {
            let dense: Vec<String> = vec![
                "Boil ~{5%min} then ~{2%h} then ~{30%s} and ~{1%d}.".into(),
                "Add @a{1%kg} @b{2%g} @c{3%ml} @d{4%l} @e{5%tsp} @f{6%cup} @g{7%oz} @h{8%lb}.".into(),
                ">> time: 1h 30min\n>> prep time: 20 min\n\nWait ~{10%minutes} at 180 °C or 350 °F, use 2 cups and 3 tbsp.".into(),
                "@x{1%kg} then @&x{500%g} and @&x{1%lb} and @y{1%l} then @&y{2%cup}".into(),
                "~{1%s} ~{1%min} ~{1%h} ~{1%d} ~{1%kg} ~{1%c} ~{1%g} ~{1%ml}".into(),
            ];
            let fresh_d: Vec<String> = dense.iter().map(|s| image(&mk(), s)).collect();
            let shared = Arc::new(mk());
            let dense_a = Arc::new(dense.clone());
            // sometimes many more threads than cores (parses in flight on other threads must not count for anything)
            let nt = if round % 4 == 1 { 48usize } else { 8usize };
            let reps = if ctx.thorough { 20_000 } else if nt > 8 { 600 } else { 3_000 };
            let barrier = Arc::new(Barrier::new(nt));
            let mut hs = Vec::new();
            for t in 0..nt {
                let (p, ins, b) = (shared.clone(), dense_a.clone(), barrier.clone());
                hs.push(std::thread::spawn(move || { b.wait(); let mut bad = Vec::new(); for r in 0..reps { let i = (r + t) % ins.len(); let img = image(&p, &ins[i]); bad.push((i, img)); } bad }));
            }
            for h in hs { for (i, img) in h.join().unwrap_or_default() { ctx.eval("", false); if img != fresh_d[i] {
                ctx.oracle_fail(format!("{nt} threads, unit-dense inputs, shared parser: ext={ext_bits} input={:?}", dense[i]), format!("result differs from a fresh parser\nfresh: {}\nthread: {img}", fresh_d[i]), "c18:threads".into()); } } }
            ctx.count_n("mode-d-parses", (nt * reps) as u64);
        }
    }
}
