//! C07 Diagnostics are sound, complete and placed on the offending construct.
use crate::ctx::Ctx;
use crate::props::c01::{check_spelling, styles, EXT_ALL};
use crate::props::c06::recipe_case;
use crate::render::*;
use crate::rng::Rng;
use crate::wf::{self, Block, Item, Style};
#[allow(unused_imports)] use crate::wf::Item::SoftBreak;
use cooklang::error::{Severity, Stage};

/// (name, text to plant, where: 0 = inside a step, 1 = own block appended, 2 = document prefix,
///  needs extended parser (Some(true)), canonical (Some(false)) or either (None), expected kind, error?, stage parse?,
///  the part of the planted text the primary label has to touch)
struct Plant { name: &'static str, text: &'static str, place: u8, dialect: Option<bool>, kind: &'static str, error: bool, parse: bool, focus: &'static str }

const CATALOGUE: &[Plant] = &[
    Plant { name: "empty ingredient name", text: "@{1%g}", place: 0, dialect: None, kind: "empty-name:ingredient", error: true, parse: true, focus: "@{1%g}" },
    Plant { name: "empty cookware name", text: "#{}", place: 0, dialect: None, kind: "empty-name:cookware", error: true, parse: true, focus: "#{}" },
    Plant { name: "zero denominator", text: "@zq{1/0%g}", place: 0, dialect: None, kind: "division-by-zero", error: true, parse: true, focus: "1/0" },
    Plant { name: "empty value", text: "@zq{%g}", place: 0, dialect: None, kind: "empty-value", error: true, parse: true, focus: "{%g}" },
    Plant { name: "unit on cookware", text: "#zpot{1%kg}", place: 0, dialect: None, kind: "cookware-unit", error: true, parse: true, focus: "%kg" },
    Plant { name: "unit on cookware (no separator)", text: "#zpot{2 large}", place: 0, dialect: Some(true), kind: "cookware-unit", error: true, parse: true, focus: "large" },
    Plant { name: "unit on cookware (spaced)", text: "#zpot{ 1 % kg }", place: 0, dialect: None, kind: "cookware-unit", error: true, parse: true, focus: "% kg" },
    Plant { name: "zero denominator (mixed)", text: "@zq{1 1/0}", place: 0, dialect: None, kind: "division-by-zero", error: true, parse: true, focus: "1/0" },
    Plant { name: "zero denominator (cookware)", text: "#zpot{3/0}", place: 0, dialect: None, kind: "division-by-zero", error: true, parse: true, focus: "3/0" },
    Plant { name: "empty value (locked)", text: "@zq{= %g}", place: 0, dialect: None, kind: "empty-value", error: true, parse: true, focus: "%g" },
    Plant { name: "empty cookware alias", text: "#za|{}", place: 0, dialect: Some(true), kind: "empty-alias:cookware", error: true, parse: true, focus: "|" },
    Plant { name: "multiple cookware aliases", text: "#za|zb|zc{}", place: 0, dialect: Some(true), kind: "multiple-aliases:cookware", error: true, parse: true, focus: "|zb|zc" },
    Plant { name: "duplicate modifier (apart)", text: "@?-?zq{}", place: 0, dialect: Some(true), kind: "duplicate-modifier", error: true, parse: true, focus: "?-?" },
    Plant { name: "dangling cookware reference", text: "#&znosuch{}", place: 0, dialect: Some(true), kind: "reference-not-found", error: true, parse: false, focus: "#&znosuch{}" },
    Plant { name: "note on cookware reference", text: "#zpp{} and #&zpp{}(a note)", place: 0, dialect: Some(true), kind: "note-in-reference", error: true, parse: false, focus: "(a note)" },
    Plant { name: "conflicting modifier on cookware reference", text: "#zpp{} and #&?zpp{}", place: 0, dialect: Some(true), kind: "ref-conflicting-modifiers", error: true, parse: false, focus: "&?" },
    Plant { name: "dangling reference (case differs only in ASCII is fine, other name is not)", text: "@zqq{} and @&zqQx{}", place: 0, dialect: Some(true), kind: "reference-not-found", error: true, parse: false, focus: "@&zqQx{}" },
    Plant { name: "timer without unit (single word form has none either)", text: "~zt{1/2}", place: 0, dialect: None, kind: "timer-missing-unit", error: true, parse: true, focus: "{1/2}" },
    Plant { name: "timer unit not time (no separator)", text: "~zt{5 kg}", place: 0, dialect: Some(true), kind: "timer-unit-not-time", error: true, parse: false, focus: "kg" },
    Plant { name: "timer without unit", text: "~zt{5}", place: 0, dialect: None, kind: "timer-missing-unit", error: true, parse: true, focus: "{5}" },
    Plant { name: "timer without duration", text: "~ztimer{}", place: 0, dialect: Some(true), kind: "timer-missing-quantity", error: true, parse: true, focus: "{}" },
    Plant { name: "timer neither name nor quantity", text: "~{}", place: 0, dialect: Some(false), kind: "timer-neither-name-nor-quantity", error: true, parse: true, focus: "~{}" },
    Plant { name: "duplicate modifier", text: "@??zq{}", place: 0, dialect: Some(true), kind: "duplicate-modifier", error: true, parse: true, focus: "??" },
    Plant { name: "recipe modifier on cookware", text: "#@zpot{}", place: 0, dialect: Some(true), kind: "cookware-recipe-modifier", error: true, parse: true, focus: "#@" },
    Plant { name: "modifier on timer", text: "~?zt{5%min}", place: 0, dialect: Some(true), kind: "modifiers-not-allowed:timer", error: true, parse: true, focus: "?" },
    Plant { name: "alias on timer", text: "~za|zb{5%min}", place: 0, dialect: Some(true), kind: "alias-not-allowed:timer", error: true, parse: true, focus: "|zb" },
    Plant { name: "multiple aliases", text: "@za|zb|zc{}", place: 0, dialect: Some(true), kind: "multiple-aliases:ingredient", error: true, parse: true, focus: "|zb|zc" },
    Plant { name: "empty alias", text: "@za|{}", place: 0, dialect: Some(true), kind: "empty-alias:ingredient", error: true, parse: true, focus: "|" },
    Plant { name: "dangling reference", text: "@&znosuch{}", place: 0, dialect: Some(true), kind: "reference-not-found", error: true, parse: false, focus: "@&znosuch{}" },
    Plant { name: "new and ref", text: "@+&zq{}", place: 0, dialect: Some(true), kind: "ref-conflicting-modifiers", error: true, parse: false, focus: "+&" },
    Plant { name: "conflicting modifier on reference", text: "@zqq{} and @&-zqq{}", place: 0, dialect: Some(true), kind: "ref-conflicting-modifiers", error: true, parse: false, focus: "&-" },
    Plant { name: "note on reference", text: "@zqq{} and @&zqq{}(a note)", place: 0, dialect: Some(true), kind: "note-in-reference", error: true, parse: false, focus: "(a note)" },
    Plant { name: "conflicting reference quantities", text: ">> [mode]: components\n\n@zqq{1%g}\n\n>> [mode]: all\n\nadd @&zqq{2%g}", place: 1, dialect: Some(true), kind: "conflicting-ref-quantity", error: true, parse: false, focus: "{2%g}" },
    Plant { name: "intermediate ref 0", text: "@&(0)zq{}", place: 0, dialect: Some(true), kind: "inter-ref-zero", error: true, parse: false, focus: "(0)" },
    Plant { name: "intermediate ref to self", text: "@&(~0)zq{}", place: 0, dialect: Some(true), kind: "inter-ref-self", error: true, parse: false, focus: "(~0)" },
    Plant { name: "intermediate ref out of range", text: "@&(99)zq{}", place: 0, dialect: Some(true), kind: "inter-ref-bounds", error: true, parse: false, focus: "(99)" },
    Plant { name: "intermediate ref bad syntax", text: "@&(x)zq{}", place: 0, dialect: Some(true), kind: "inter-ref-invalid", error: true, parse: true, focus: "(x)" },
    Plant { name: "intermediate ref wrong order", text: "@&(~=1)zq{}", place: 0, dialect: Some(true), kind: "inter-ref-wrong-order", error: true, parse: true, focus: "~=" },
    Plant { name: "intermediate ref signed", text: "@&(-1)zq{}", place: 0, dialect: Some(true), kind: "inter-ref-sign", error: true, parse: true, focus: "-1" },
    Plant { name: "intermediate ref too large", text: "@&(99999)zq{}", place: 0, dialect: Some(true), kind: "int-parse", error: true, parse: true, focus: "99999" },
    Plant { name: "intermediate ref on cookware", text: "#&(1)zpot{}", place: 0, dialect: Some(true), kind: "inter-ref-not-allowed:cookware", error: true, parse: true, focus: "(1)" },
    Plant { name: "bad mode value", text: ">> [mode]: nonsense", place: 1, dialect: Some(true), kind: "config-invalid-value", error: true, parse: false, focus: "nonsense" },
    Plant { name: "empty metadata key", text: ">> : value", place: 1, dialect: None, kind: "empty-metadata-key", error: true, parse: true, focus: ">> :" },
    Plant { name: "timer value is text", text: "~zt{some%min}", place: 0, dialect: Some(true), kind: "timer-value-text", error: true, parse: false, focus: "some" },
    Plant { name: "timer unit unknown", text: "~zt{5%zfoo}", place: 0, dialect: Some(true), kind: "timer-unit-unknown", error: true, parse: false, focus: "zfoo" },
    Plant { name: "timer unit not time", text: "~zt{5%kg}", place: 0, dialect: Some(true), kind: "timer-unit-not-time", error: true, parse: false, focus: "kg" },
    Plant { name: "timer without unit (separator but empty unit)", text: "~zt{5%}", place: 0, dialect: None, kind: "timer-missing-unit", error: true, parse: true, focus: "{5%}" },
    Plant { name: "timer without unit (unnamed, blank unit)", text: "~{5% }", place: 0, dialect: None, kind: "timer-missing-unit", error: true, parse: true, focus: "{5% }" },
    Plant { name: "empty unit warning", text: "@zq{5%}", place: 0, dialect: None, kind: "empty-unit", error: false, parse: true, focus: "%" },
    Plant { name: "text value in reference", text: "@zqq{1%g} and @&zqq{some}", place: 0, dialect: Some(true), kind: "text-value-in-ref", error: false, parse: false, focus: "some" },
    Plant { name: "incompatible units in reference", text: "@zqq{1%l} and @&zqq{2%kg}", place: 0, dialect: Some(true), kind: "incompatible-units", error: false, parse: false, focus: "kg" },
    Plant { name: "redundant new", text: "@+zq{}", place: 0, dialect: Some(true), kind: "redundant-new", error: false, parse: false, focus: "+" },
    Plant { name: "unknown config key", text: ">> [zz]: 1", place: 1, dialect: Some(true), kind: "config-unknown-key", error: false, parse: false, focus: "[zz]" },
    Plant { name: "text in components mode", text: ">> [mode]: components\n\nsome words @zq{}\n\n>> [mode]: all", place: 1, dialect: Some(true), kind: "text-in-components-mode", error: false, parse: false, focus: "some words" },
    Plant { name: "component in text mode", text: ">> [mode]: text\n\nadd @zq{} now\n\n>> [mode]: all", place: 1, dialect: Some(true), kind: "component-in-text-mode:ingredient", error: false, parse: false, focus: "@zq{}" },
    Plant { name: "note on timer", text: "~zt{5%min}(note)", place: 0, dialect: None, kind: "note-not-allowed:timer", error: false, parse: true, focus: "(note)" },
    Plant { name: "unsupported time value", text: ">> time: soon", place: 1, dialect: Some(true), kind: "std-unsupported-value", error: false, parse: false, focus: "soon" },
    Plant { name: "time overridden", text: ">> prep time: 5 min\n>> time: 10 min", place: 1, dialect: Some(true), kind: "time-overridden", error: false, parse: false, focus: "prep time: 5 min" },
    Plant { name: "zero denominator (range start)", text: "@zq{1/0-2%g}", place: 0, dialect: Some(true), kind: "division-by-zero", error: true, parse: true, focus: "1/0" },
    Plant { name: "zero denominator (range end)", text: "#zpot{1-3/0}", place: 0, dialect: Some(true), kind: "division-by-zero", error: true, parse: true, focus: "3/0" },
    Plant { name: "empty ingredient name (no-break space)", text: "@\u{00A0}{2%kg}", place: 0, dialect: None, kind: "empty-name:ingredient", error: true, parse: true, focus: "{2%kg}" },
    Plant { name: "empty ingredient name with an alias", text: "@|zq{}", place: 0, dialect: Some(true), kind: "empty-name:ingredient", error: true, parse: true, focus: "@|zq{}" },
    Plant { name: "blank cookware name with an alias", text: "# |zpan{}", place: 0, dialect: Some(true), kind: "empty-name:cookware", error: true, parse: true, focus: "# |zpan{}" },
    Plant { name: "malformed front matter", text: "---\nza: [\n---\n", place: 2, dialect: None, kind: "other:", error: true, parse: false, focus: "za: [\n" },
];

/// validity clauses, checked on every parse result
pub fn check_validity(ctx: &mut Ctx, res: &cooklang::RecipeResult, desc: &str) {
    let has_err = res.report().iter().any(|d| d.severity == Severity::Error);
    if res.is_valid() != (res.has_output() && !has_err) {
        ctx.oracle_fail(desc.to_string(), format!("is_valid={} but has_output={} has_error={has_err}", res.is_valid(), res.has_output()), "c07:validity".into());
    }
    let parse_err = res.report().iter().any(|d| d.severity == Severity::Error && d.stage == Stage::Parse);
    if parse_err {
        if res.has_output() { ctx.oracle_fail(desc.to_string(), "a parse-stage error did not suppress the output".into(), "c07:parse-error-output".into()); }
        if let Some(d) = res.report().iter().find(|d| d.stage != Stage::Parse) { ctx.oracle_fail(desc.to_string(), format!("analysis diagnostic {} survived a parse-stage error", r_diag_full(d)), "c07:parse-error-purity".into()); }
    } else if !res.has_output() {
        ctx.oracle_fail(desc.to_string(), "no output although there is no parse-stage error".into(), "c07:analysis-error-output".into());
    }
}

pub fn run(ctx: &mut Ctx) {
    ctx.rule = "soundness: well-formed recipes (as C01) must be quiet; completeness/placement: each of the catalogued invalid constructs is planted at a random item boundary of a random step (or as its own block / document prefix) of a random well-formed recipe, under the parser that enables the check; the diagnostic of the expected kind, severity and stage must exist and its first label must touch the planted construct; validity / stage-purity clauses are checked on every result; every input also goes through the model (diagnostic kinds and all labels compared). distinct = distinct request lines".into();
    let mut rng = Rng::new(ctx.seed ^ 0xC07);
    let n_wf = if ctx.thorough { 20_000 } else { 500 };
    for i in 0..n_wf {
        let r = wf::generate(&mut rng, i % 2 == 1);
        for (k, st) in styles(&mut rng).iter().enumerate() { let t = wf::spell(&r, st); check_spelling(ctx, &r, &t, &format!("sound style#{k}")); }
    }
    let per = if ctx.thorough { 3_000 } else { 120 };
    for p in CATALOGUE {
        for _ in 0..per {
            let extended = p.dialect.unwrap_or_else(|| rng.chance(1, 2));
            let mut r = wf::generate(&mut rng, extended);
            // a `>>` entry with an ordinary key is only read when the recipe has no front matter
            if p.place == 2 || (p.text.starts_with(">> ") && !p.text.starts_with(">> [")) { r.front = None; }
            let marker = "\u{1}PLANT\u{1}";
            match p.place {
                0 => {
                    // put a placeholder text item into a random step
                    // only steps read in the default modes: between two mode switches (text / steps / duplicate-reference
                    // regions of the well-formed recipes) a component is not read as it is outside
                    let mut steps: Vec<usize> = Vec::new();
                    let (mut define_default, mut duplicate_default) = (true, true);
                    for (i, b) in r.blocks.iter().enumerate() {
                        match b {
                            Block::Switch(k, v) => { if k == "duplicate" { duplicate_default = v == "new" || v == "default"; } else { define_default = v == "all" || v == "default"; } }
                            Block::Step(_) if define_default && duplicate_default => steps.push(i),
                            _ => {}
                        }
                    }
                    if steps.is_empty() { r.blocks.push(Block::Step(vec![Item::Text(format!("go {marker} on."))])); }
                    else {
                        let bi = steps[rng.below(steps.len())];
                        if let Block::Step(items) = &mut r.blocks[bi] {
                            let pos = rng.below(items.len() + 1);
                            items.insert(pos, Item::Text(format!(" {marker} ")));
                        }
                    }
                }
                1 => r.blocks.push(Block::Step(vec![Item::Text(marker.to_string())])),
                _ => {}
            }
            let st = if rng.chance(1, 2) { Style::plain() } else { Style { seed: rng.next(), spaces: true, comments: rng.chance(1, 2), wrap: false, crlf: false, unit_space: false } };
            let mut text = wf::spell(&r, &st);
            if p.place == 2 { text = format!("{}{}", p.text, text); } else { text = text.replace(marker, p.text); }
            let Some(start) = text.find(p.text) else { continue };
            let fstart = start + p.text.find(p.focus).unwrap_or(0);
            let fend = fstart + p.focus.len();
            let (ext, conv) = if extended { (EXT_ALL, 1u8) } else { (0u32, 0u8) };
            ctx.count(&format!("planted:{}", p.name));
            let Some(res) = recipe_case(ctx, &text, ext, conv) else { continue };
            let desc = format!("planted '{}' at {start} ext={ext} conv={conv} input={text:?}", p.name);
            check_validity(ctx, &res, &desc);
            let want_sev = if p.error { Severity::Error } else { Severity::Warning };
            let want_stage = if p.parse { Stage::Parse } else { Stage::Analysis };
            let cands: Vec<_> = res.report().iter().filter(|d| diag_kind(d).starts_with(p.kind)).collect();
            if cands.is_empty() {
                ctx.oracle_fail(desc, format!("no diagnostic of kind {} for the planted construct; report: {}", p.kind, res.report().iter().map(r_diag_full).collect::<Vec<_>>().join(" ")), format!("c07:missing:{}", p.kind));
                continue;
            }
            let ok = cands.iter().any(|d| d.severity == want_sev && d.stage == want_stage && (d.labels.is_empty() && p.place == 2 || d.labels.first().map(|l| l.0.start() <= fend && l.0.end() >= fstart).unwrap_or(false)));
            if !ok {
                ctx.oracle_fail(desc, format!("diagnostic {} has the wrong severity/stage or its primary label does not touch {fstart}..{fend}: {}", p.kind, cands.iter().map(|d| r_diag_full(d)).collect::<Vec<_>>().join(" ")), format!("c07:placement:{}", p.kind));
            }
        }
    }
    // the shared input stream (soups, structured recipes, reference/mode/metadata scenarios, mutations): every
    // diagnostic with all labels is compared with the model, and the validity clauses are evaluated on every result
    let mut n = 0u64;
    crate::props::c04::inputs(ctx, 0xC07, &mut |ctx, s, e| {
        n += 1;
        let conv = (n % 2) as u8;
        if let Some(res) = recipe_case(ctx, s, e, conv) {
            for d in res.report().iter() { let k = diag_kind(d); ctx.count(&format!("stream:{}", if k.starts_with("other:") { "other (YAML / validator messages)" } else { &k })); }
            check_validity(ctx, &res, &format!("ext={e} conv={conv} input={s:?}"));
        }
    });
}
