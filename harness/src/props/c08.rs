//! C08 Scaling multiplies exactly the scalable amounts and nothing else.
use crate::ctx::Ctx;
use crate::props::c09::{alt_world, amount_u, bundled_world, close, in_oracle_range, random_key, render_opt_quantity, render_value, scale_u, spec_unit, spec_value, value_parts, World};
use crate::rng::Rng;
use crate::util::{bits, guarded, panic_signature};
use cooklang::quantity::{Quantity, QuantityValue, ScalableValue, ScaledQuantity, Value};
use cooklang::scale::ScaleOutcome;
use cooklang::{CooklangParser, Extensions, ScalableRecipe, ScaledRecipe};
use serde_json::Value as J;

// ---------------------------------------------------------------- generation of recipe texts from a structured description

#[derive(Clone, Debug)]
enum ValSpec { Int(u32), Dec(String), Frac(u32, u32), Mixed(u32, u32, u32), Range(String, String), Text(&'static str) }
impl ValSpec {
    fn text(&self) -> String {
        match self {
            ValSpec::Int(n) => n.to_string(), ValSpec::Dec(s) => s.clone(), ValSpec::Frac(n, d) => format!("{n}/{d}"),
            ValSpec::Mixed(w, n, d) => format!("{w} {n}/{d}"), ValSpec::Range(a, b) => format!("{a}-{b}"), ValSpec::Text(t) => t.to_string(),
        }
    }
    fn is_text(&self) -> bool { matches!(self, ValSpec::Text(_)) }
}
#[derive(Clone, Debug)]
struct QSpec { value: ValSpec, lock: bool, unit: Option<String> }
impl QSpec {
    fn text(&self) -> String {
        format!("{}{}{}", if self.lock { "=" } else { "" }, self.value.text(), self.unit.as_ref().map(|u| format!("%{u}")).unwrap_or_default())
    }
}

const ING: [&str; 10] = ["flour", "milk", "sugar", "olive oil", "eggs", "water", "butter", "salt", "yeast", "rice"];
const UNKNOWN: [&str; 4] = ["bunch", "pinch", "cloves", "cans"];
const TEXTS: [&str; 4] = ["some", "a pinch", "to taste", "one or two"];

fn val_spec(rng: &mut Rng) -> ValSpec {
    match rng.below(12) {
        0 => ValSpec::Text(*rng.pick(&TEXTS)),
        1 => ValSpec::Frac(rng.range(1, 3) as u32, *rng.pick(&[2, 3, 4, 8])),
        2 => ValSpec::Mixed(rng.range(1, 9) as u32, 1, *rng.pick(&[2, 3, 4])),
        3 | 4 => { let a = rng.range(1, 20); let b = a + rng.range(1, 20); ValSpec::Range(a.to_string(), if rng.chance(1, 3) { format!("{b}.5") } else { b.to_string() }) }
        5 | 6 => ValSpec::Dec(format!("{}.{}", rng.range(0, 30), rng.pick(&["5", "25", "75", "1", "333", "05", "125"]))),
        _ => ValSpec::Int(*rng.pick(&[1, 2, 3, 4, 5, 6, 8, 10, 12, 15, 20, 30, 45, 50, 60, 90, 100, 120, 150, 200, 250, 300, 400, 500, 750, 1000, 1500, 2000, 5000])),
    }
}
fn q_spec(rng: &mut Rng, w: &World) -> QSpec {
    let unit = match rng.below(10) { 0 | 1 => None, 2 => Some(rng.pick(&UNKNOWN).to_string()), _ => Some(random_key(rng, w)) };
    QSpec { value: val_spec(rng), lock: rng.chance(1, 6), unit }
}

struct RecipeSpec { text: String, ingredients: Vec<Option<QSpec>>, declared_servings: Option<Vec<u32>> }

fn recipe_spec(rng: &mut Rng, w: &World, name_only_timers: bool) -> RecipeSpec {
    let mut s = String::new();
    let mut ings: Vec<Option<QSpec>> = vec![];
    let mut defined: Vec<&str> = vec![];
    // servings as written, in declaration order (the first one is the base of scale_to_servings)
    let mut declared_servings: Option<Vec<u32>> = None;
    // further metadata entries (the frame clause: scaling and conversion leave the whole map alone): strings that need escaping, numbers, nested YAML
    let extra = match rng.below(4) { 0 => "title: \"Pan \\\"cake\\\"\"\ntags: [a, b, 3]\n", 1 => "nutrition: {kcal: 250.5, vegan: true, per: {g: 100}}\nsource: null\n", 2 => "author: é ü\ntime: 1h 30 min\nnotes:\n  - one\n  - 2.5\n", _ => "" };
    match rng.below(8) {
        0 => { let a = rng.range(1, 12) as u32; s.push_str(&format!("---\n{extra}servings: {a}\n---\n")); declared_servings = Some(vec![a]); }
        1 => { let (a, b) = (rng.range(1, 6) as u32, rng.range(7, 12) as u32); s.push_str(&format!("---\nservings: {a}|{b}\n{extra}---\n")); declared_servings = Some(vec![a, b]); }
        2 => { let (a, b) = (rng.range(1, 6) as u32, rng.range(7, 12) as u32); s.push_str(&format!("---\ntitle: test\nservings: [{a}, {b}]\n---\n")); declared_servings = Some(vec![a, b]); }
        4 if !extra.is_empty() => s.push_str(&format!("---\n{extra}---\n")),
        3 => { // not in ascending order
            let mut v: Vec<u32> = vec![rng.range(7, 12) as u32, rng.range(1, 3) as u32, rng.range(4, 6) as u32];
            if rng.chance(1, 2) { v.truncate(2); }
            let txt = v.iter().map(|x| x.to_string()).collect::<Vec<_>>();
            match rng.below(3) { 0 => s.push_str(&format!("---\nservings: {}\n---\n", txt.join("|"))), 1 => s.push_str(&format!("---\nservings: [{}]\n---\n", txt.join(", "))), _ => s.push_str(&format!(">> servings: {}\n\n", txt.join("|"))) }
            declared_servings = Some(v);
        }
        _ => {}
    }
    let n = rng.range(1, 8);
    for _ in 0..n {
        match rng.below(9) {
            0 => { let q = q_spec(rng, w); let u = rng.pick(&["min", "minutes", "h", "s", "hours", "secs", "d"]); s.push_str(&format!("Wait ~{{{}%{u}}}. ", q.value.text())); }
            // a timer with a name and no duration is accepted without TIMER_REQUIRES_TIME: it has no quantity, its outcome is NoQuantity
            1 if name_only_timers && rng.chance(1, 2) => s.push_str(rng.pick_str(&["Rest ~nap{}. ", "Wait for the ~rest. ", "Then ~long nap{}. "])),
            1 => s.push_str(&format!("Rest ~nap{{{}%{}}}. ", rng.range(1, 200), rng.pick(&["min", "s", "h"]))),
            2 => s.push_str(&format!("Use a #{}{{{}}}. ", rng.pick(&["pan", "big pot", "bowl"]), rng.pick(&["1", "2", "1-2", "big", "=3", "1/2"]))),
            3 => s.push_str(&format!("Take the #{}{{}}. ", rng.pick(&["pan", "whisk"]))),
            4 => s.push_str(&format!("Bake at {} {} a bit. ", rng.range(100, 450), rng.pick(&["°C", "F", "C"]))),
            5 => { let name = *rng.pick(&ING); s.push_str(&format!("Add @{name}{{}}. ")); ings.push(None); defined.push(name); }
            6 if !defined.is_empty() => {
                // a reference to an earlier ingredient, with its own quantity
                let name = *rng.pick(&defined); let q = q_spec(rng, w);
                s.push_str(&format!("More @&{name}{{{}}}. ", q.text())); ings.push(Some(q));
            }
            // the same quantity written twice, on two ingredients, once locked with `=` and once not, in either order
            // (what one component becomes must not depend on another one that happens to be written alike)
            7 if rng.chance(1, 2) => {
                let (n1, n2) = (*rng.pick(&ING), *rng.pick(&ING));
                let mut q1 = q_spec(rng, w); let mut q2 = q1.clone();
                q1.lock = rng.chance(1, 2); q2.lock = !q1.lock;
                s.push_str(&format!("Mix @{n1}{{{}}} with @{n2}{{{}}}. ", q1.text(), q2.text()));
                ings.push(Some(q1)); ings.push(Some(q2)); defined.push(n1); defined.push(n2);
            }
            _ => { let name = *rng.pick(&ING); let q = q_spec(rng, w); s.push_str(&format!("Add @{name}{{{}}}. ", q.text())); ings.push(Some(q)); defined.push(name); }
        }
        if rng.chance(1, 4) { s.push_str("\n\n"); }
        if rng.chance(1, 12) { s.push_str("\n= Part two =\n\n"); }
    }
    // the quantity written on an intermediate-preparation reference is an ingredient quantity like any other
    if rng.chance(1, 6) {
        let q = q_spec(rng, w);
        s.push_str(&format!("\n\nRest it.\n\nThen fold in @&({})dough{{{}}}. ", rng.pick_str(&["~1", "~2", "=~1"].split_last().map(|(_, r)| r).unwrap_or(&["~1"])), q.text()));
        ings.push(Some(q));
    }
    RecipeSpec { text: s, ingredients: ings, declared_servings }
}

// ---------------------------------------------------------------- encoding / rendering

fn spec_scalable(v: &ScalableValue) -> String {
    match v { ScalableValue::Linear(v) => format!("L{}", spec_value(v)), ScalableValue::Fixed(v) => format!("X{}", spec_value(v)) }
}
fn spec_sq(q: Option<&Quantity<ScalableValue>>) -> String {
    match q { None => "none".into(), Some(q) => format!("{}@{}", spec_scalable(q.value()), spec_unit(q.unit())) }
}
fn recipe_items(r: &ScalableRecipe) -> String {
    let mut items: Vec<String> = r.ingredients.iter().map(|i| spec_sq(i.quantity.as_ref())).collect();
    items.extend(r.cookware.iter().map(|c| c.quantity.as_ref().map(spec_scalable).unwrap_or("none".into())));
    items.extend(r.timers.iter().map(|t| spec_sq(t.quantity.as_ref())));
    format!("{} {} {} {}", r.ingredients.len(), r.cookware.len(), r.timers.len(), items.join(" ")).trim_end().to_string()
}
fn render_scaled_recipe(r: &ScaledRecipe) -> String {
    let mut items: Vec<String> = r.ingredients.iter().map(|i| render_opt_quantity(i.quantity.as_ref())).collect();
    items.extend(r.cookware.iter().map(|c| c.quantity.as_ref().map(render_value).unwrap_or("none".into())));
    items.extend(r.timers.iter().map(|t| render_opt_quantity(t.quantity.as_ref())));
    items.join(" ; ")
}
fn outcome_name(o: &ScaleOutcome) -> &'static str {
    match o { ScaleOutcome::Scaled => "scaled", ScaleOutcome::Fixed => "fixed", ScaleOutcome::NoQuantity => "noQuantity", ScaleOutcome::Error(_) => "error" }
}
fn render_scaled(r: &ScaledRecipe) -> String {
    match r.scaled_data() {
        None => format!("{} # default", render_scaled_recipe(r)),
        Some(d) => {
            let o = |v: &Vec<ScaleOutcome>| v.iter().map(outcome_name).collect::<Vec<_>>().join(" ");
            format!("{} # {} # {} # {} # {}", render_scaled_recipe(r), bits(d.target.factor()), o(&d.ingredients), o(&d.cookware), o(&d.timers))
        }
    }
}

// ---------------------------------------------------------------- oracle

fn inner(v: &ScalableValue) -> &Value { match v { ScalableValue::Fixed(v) | ScalableValue::Linear(v) => v } }
fn is_linear(v: &ScalableValue) -> bool { matches!(v, ScalableValue::Linear(_)) }

/// JSON image with every quantity and the scaling data blanked out: the part that has to be byte-equal
fn skeleton(mut j: J) -> J {
    for key in ["ingredients", "cookware", "timers"] {
        if let Some(a) = j.get_mut(key).and_then(|x| x.as_array_mut()) {
            for c in a { if let Some(o) = c.as_object_mut() { o.insert("quantity".into(), J::Null); } }
        }
    }
    if let Some(o) = j.as_object_mut() { o.insert("data".into(), J::Null); }
    j
}

/// `after` states the same physical quantity as `value unit` scaled by `f` (f = 1: unchanged)
fn check_quantity(ctx: &mut Ctx, w: &World, input: &str, what: &str, before: &Value, unit: Option<&str>, f: f64, after: &ScaledQuantity, sig: &str) {
    let ub = unit.and_then(|u| w.conv.find_unit(u));
    let Some(pb) = value_parts(before) else {
        // text: identical
        if unit != after.unit() || !matches!((before, after.value()), (Value::Text(a), Value::Text(b)) if a == b) {
            ctx.oracle_fail(input.into(), format!("{what}: text quantity {before} {unit:?} became {after}"), format!("c08:{sig}"));
        }
        return;
    };
    let Some(pa) = value_parts(after.value()) else { ctx.oracle_fail(input.into(), format!("{what}: numeric value became text"), format!("c08:{sig}")); return; };
    if pa.len() != pb.len() { ctx.oracle_fail(input.into(), format!("{what}: number/range shape changed"), format!("c08:{sig}")); return; }
    if !f.is_finite() || f <= 0.0 || !pb.iter().all(|x| in_oracle_range(*x) && in_oracle_range(*x * f)) { return; }
    match ub {
        None => {
            if unit != after.unit() { ctx.oracle_fail(input.into(), format!("{what}: unit {unit:?} became {:?}", after.unit()), format!("c08:{sig}")); return; }
            for (x, y) in pb.iter().zip(pa.iter()) {
                if !close(*y, x * f, 0.0, 1e-9) { ctx.oracle_fail(input.into(), format!("{what}: {x:?} x {f:?} became {y:?}"), format!("c08:{sig}")); }
            }
        }
        Some(ub) => {
            let Some(ua) = after.unit().and_then(|u| w.conv.find_unit(u)) else { ctx.oracle_fail(input.into(), format!("{what}: unit {:?} is not known any more", after.unit()), format!("c08:{sig}")); return; };
            if ua.physical_quantity != ub.physical_quantity { ctx.oracle_fail(input.into(), format!("{what}: physical quantity changed"), format!("c08:{sig}")); return; }
            for (x, y) in pb.iter().zip(pa.iter()) {
                // the amount of f·x in the written unit (= f · amount(x) for units without an offset)
                let (want, got) = (amount_u(x * f, &ub), amount_u(*y, &ua));
                if !close(want, got, scale_u(x * f, &ub).max(scale_u(*y, &ua)), 1e-9) {
                    ctx.oracle_fail(input.into(), format!("{what}: {x:?} {} x {f:?} is {want:?} base units, after scaling {y:?} {} is {got:?}", ub.symbol(), ua.symbol()), format!("c08:{sig}"));
                }
                if ub.difference == 0.0 && ua.difference == 0.0 {
                    let base = amount_u(*x, &ub);
                    if base != 0.0 && !close(got / base, f, 0.0, 1e-9) {
                        ctx.oracle_fail(input.into(), format!("{what}: amount ratio {:?} instead of {f:?}", got / base), format!("c08:{sig}"));
                    }
                }
            }
        }
    }
}

fn check_scaled(ctx: &mut Ctx, w: &World, input: &str, before: &ScalableRecipe, after: &ScaledRecipe, f: f64) {
    let (jb, ja) = (serde_json::to_value(before).unwrap(), serde_json::to_value(after).unwrap());
    if skeleton(jb.clone()) != skeleton(ja.clone()) { ctx.oracle_fail(input.into(), "something other than a quantity changed (names, relations, steps, metadata, inline quantities…)".into(), "c08:untouched".into()); }
    let Some(data) = after.scaled_data() else { ctx.oracle_fail(input.into(), "no scaling data after scale()".into(), "c08:outcomes".into()); return; };
    if data.target.factor().to_bits() != f.to_bits() { ctx.oracle_fail(input.into(), format!("recorded factor {:?}", data.target.factor()), "c08:outcomes".into()); }
    if data.ingredients.len() != after.ingredients.len() || data.cookware.len() != after.cookware.len() || data.timers.len() != after.timers.len()
        || before.ingredients.len() != after.ingredients.len() || before.cookware.len() != after.cookware.len() || before.timers.len() != after.timers.len() {
        ctx.oracle_fail(input.into(), "outcome vectors do not line up with the components".into(), "c08:outcomes".into()); return;
    }
    let expect = |v: Option<&ScalableValue>| match v { None => "noQuantity", Some(ScalableValue::Fixed(_)) => "fixed", Some(ScalableValue::Linear(v)) => if v.is_text() { "error" } else { "scaled" } };
    for (i, (b, a)) in before.ingredients.iter().zip(after.ingredients.iter()).enumerate() {
        let what = format!("ingredient {i} ({})", b.name);
        let o = outcome_name(&data.ingredients[i]);
        let e = expect(b.quantity.as_ref().map(|q| q.value()));
        ctx.count(&format!("ingredient-outcome:{o}"));
        if o != e { ctx.oracle_fail(input.into(), format!("{what}: outcome {o}, the case that applies is {e}"), "c08:outcomes".into()); }
        match (&b.quantity, &a.quantity) {
            (None, None) => {}
            (Some(qb), Some(qa)) => {
                let lin = is_linear(qb.value()) && !inner(qb.value()).is_text();
                ctx.count(if lin { "ingredient:linear" } else if inner(qb.value()).is_text() { "ingredient:text" } else { "ingredient:locked" });
                if qa.unit() != qb.unit() { ctx.count("ingredient:refitted-to-another-unit"); }
                check_quantity(ctx, w, input, &what, inner(qb.value()), qb.unit(), if lin { f } else { 1.0 }, qa, if lin { "linear" } else { "fixed" });
            }
            _ => ctx.oracle_fail(input.into(), format!("{what}: quantity appeared or disappeared"), "c08:untouched".into()),
        }
    }
    for (i, (b, a)) in before.cookware.iter().zip(after.cookware.iter()).enumerate() {
        let o = outcome_name(&data.cookware[i]);
        let e = expect(b.quantity.as_ref());
        if o != e { ctx.oracle_fail(input.into(), format!("cookware {i}: outcome {o}, the case that applies is {e}"), "c08:outcomes".into()); }
        let same = match (&b.quantity, &a.quantity) {
            (None, None) => true,
            (Some(ScalableValue::Fixed(vb)), Some(va)) => serde_json::to_value(vb).unwrap() == serde_json::to_value(va).unwrap(),
            (Some(ScalableValue::Linear(_)), Some(_)) => true, // never produced by the parser; nothing is claimed
            _ => false,
        };
        if !same { ctx.oracle_fail(input.into(), format!("cookware {i}: quantity changed"), "c08:fixed".into()); }
    }
    for (i, (b, a)) in before.timers.iter().zip(after.timers.iter()).enumerate() {
        let o = outcome_name(&data.timers[i]);
        let e = expect(b.quantity.as_ref().map(|q| q.value()));
        if o != e { ctx.oracle_fail(input.into(), format!("timer {i}: outcome {o}, the case that applies is {e}"), "c08:outcomes".into()); }
        match (&b.quantity, &a.quantity) {
            (None, None) => {}
            (Some(qb), Some(qa)) => {
                let lin = is_linear(qb.value()) && !inner(qb.value()).is_text();
                check_quantity(ctx, w, input, &format!("timer {i}"), inner(qb.value()), qb.unit(), if lin { f } else { 1.0 }, qa, "fixed");
            }
            _ => ctx.oracle_fail(input.into(), format!("timer {i}: quantity appeared or disappeared"), "c08:untouched".into()),
        }
    }
}

fn check_default(ctx: &mut Ctx, input: &str, before: &ScalableRecipe, after: &ScaledRecipe) {
    let (jb, ja) = (serde_json::to_value(before).unwrap(), serde_json::to_value(after).unwrap());
    if skeleton(jb.clone()) != skeleton(ja.clone()) { ctx.oracle_fail(input.into(), "default_scale changed something other than the value wrappers".into(), "c08:default".into()); }
    if !after.is_default_scaled() { ctx.oracle_fail(input.into(), "not marked as default scaling".into(), "c08:default".into()); }
    let strip = |q: &J| -> J {
        // {"value": {"type": fixed|linear, "value": V}, "unit": U}  ->  {"value": V, "unit": U}
        if q.is_null() { return J::Null; }
        let mut o = q.clone();
        if let Some(v) = q.get("value").and_then(|v| v.get("value")) { o["value"] = v.clone(); }
        o
    };
    for key in ["ingredients", "timers"] {
        let (b, a) = (jb[key].as_array().cloned().unwrap_or_default(), ja[key].as_array().cloned().unwrap_or_default());
        if b.len() != a.len() { ctx.oracle_fail(input.into(), format!("{key}: length changed"), "c08:default".into()); continue; }
        for (x, y) in b.iter().zip(a.iter()) {
            if strip(&x["quantity"]) != y["quantity"] { ctx.oracle_fail(input.into(), format!("{key}: written quantity {} became {}", x["quantity"], y["quantity"]), "c08:default".into()); }
        }
    }
    let (b, a) = (jb["cookware"].as_array().cloned().unwrap_or_default(), ja["cookware"].as_array().cloned().unwrap_or_default());
    for (x, y) in b.iter().zip(a.iter()) {
        let want = if x["quantity"].is_null() { J::Null } else { x["quantity"]["value"].clone() };
        if want != y["quantity"] { ctx.oracle_fail(input.into(), format!("cookware: written quantity {} became {}", x["quantity"], y["quantity"]), "c08:default".into()); }
    }
}


// ---------------------------------------------------------------- the recipe WITH its metadata map and `data` (model: Num/ScaleM.lean, op `scm`)

/// `( full META DATA RECIPE )` of Driver/Serde.lean; None when the metadata is not JSON-representable (C15's known finding)
fn full_sexp(r: &ScalableRecipe) -> Option<String> {
    let m = crate::props::c15::kvs(&r.metadata.map).ok()?;
    Some(format!("( full {m} {} {} )", crate::recipe_sexp::opt(r.servings(), |s| crate::recipe_sexp::list(s, |n| n.to_string())), crate::recipe_sexp::scalable_recipe(r)))
}
/// the whole result (metadata, sections, components, inline quantities, scaling data) against the model; the metadata frame as an oracle
fn scm_case(ctx: &mut Ctx, op: String, meta_before: &str, after: &ScaledRecipe, inp: &str) {
    let meta_after = serde_json::to_string(&after.metadata).unwrap_or_default();
    if meta_after != meta_before {
        ctx.oracle_fail(inp.into(), format!("metadata changed: {meta_before} became {meta_after}"), "c08:metadata".into());
    }
    if !crate::props::c15::scaled_finite(after) { ctx.count("scm:non-finite"); return; }
    match serde_json::to_string(after).map_err(|e| e.to_string()).and_then(|js| crate::props::c15::canon_json(&js)) {
        Ok(cj) => { ctx.count("scm:compared"); ctx.case(op, cj, true, inp.into()) }
        Err(e) => ctx.notes.push(format!("scm: JSON image not available: {e}")),
    }
}

// ---------------------------------------------------------------- one recipe

fn recipe_case(ctx: &mut Ctx, w: &World, parser: &CooklangParser, spec: &RecipeSpec, f: f64, target: u32, force_servings: Option<Vec<u32>>) {
    let text = &spec.text;
    let parse = || -> Option<ScalableRecipe> {
        let mut r = parser.parse(text).into_output()?;
        if let Some(s) = &force_servings { r.set_servings(s.clone()); }
        Some(r)
    };
    let input = format!("parse {text:?}{}", force_servings.as_ref().map(|s| format!(" set_servings({s:?})")).unwrap_or_default());
    let before = match guarded(|| parse()) { Ok(Some(r)) => r, Ok(None) => { ctx.count("recipe:parse-failed"); return; } Err(p) => { ctx.oracle_fail(input, format!("panic {p}"), panic_signature(&p)); return; } };
    let items = recipe_items(&before);
    ctx.count_n("recipe:ingredients", before.ingredients.len() as u64);
    ctx.count_n("recipe:timers", before.timers.len() as u64);
    ctx.count_n("recipe:cookware", before.cookware.len() as u64);
    let nontrivial = before.ingredients.iter().any(|i| i.quantity.is_some());
    // the same recipe with its metadata map and servings, for the `scm` operations (set_servings is applied by the model: the S-expression is the recipe as parsed)
    let unforced = if force_servings.is_some() { guarded(|| parser.parse(text).into_output()).ok().flatten() } else { None };
    let full = full_sexp(unforced.as_ref().unwrap_or(&before));
    let meta_before = serde_json::to_string(&before.metadata).unwrap_or_default();
    if !before.metadata.map.is_empty() { ctx.count("scm:has-metadata"); }

    // which values are Linear: the model's decision for what the generator wrote
    if spec.ingredients.len() == before.ingredients.len() && force_servings.is_none() {
        for (s, i) in spec.ingredients.iter().zip(before.ingredients.iter()) {
            if let (Some(s), Some(q)) = (s, &i.quantity) {
                if s.value.is_text() != inner(q.value()).is_text() { continue; } // the value was not read the way the generator meant it
                let reply = if is_linear(q.value()) { "linear" } else { "fixed" };
                ctx.case(format!("sc scalable 1 {} {}", s.lock as u8, spec_value(inner(q.value()))), reply.into(), true, format!("{input}: ingredient {} written as {{{}}}", i.name, s.text()));
                let want = if !s.value.is_text() && !s.lock { "linear" } else { "fixed" };
                if reply != want { ctx.oracle_fail(input.clone(), format!("ingredient {} written as {{{}}} is {reply}", i.name, s.text()), "c08:which-linear".into()); }
            }
        }
    }
    for c in &before.cookware { if let Some(v) = &c.quantity { if is_linear(v) { ctx.oracle_fail(input.clone(), "a cookware quantity is Linear".into(), "c08:which-linear".into()); } } }
    for t in &before.timers { if let Some(q) = &t.quantity { if is_linear(q.value()) { ctx.oracle_fail(input.clone(), "a timer quantity is Linear".into(), "c08:which-linear".into()); } } }

    // scale(f)
    let inp = format!("{input}, scale({f:?})");
    match guarded(|| parse().map(|r| r.scale(f, &w.conv))) {
        Ok(Some(after)) => {
            ctx.case(format!("sc {} scale {} {items}", w.tag, bits(f)), render_scaled(&after), nontrivial, inp.clone());
            check_scaled(ctx, w, &inp, &before, &after, f);
            if let (Some(full), None) = (&full, &force_servings) {
                scm_case(ctx, format!("scm {} scale {} {full}", w.tag, bits(f)), &meta_before, &after, &inp);
                let sys = if f.to_bits() % 2 == 0 { cooklang::convert::System::Metric } else { cooklang::convert::System::Imperial };
                let mut conv = after;
                if guarded(|| { let _ = conv.convert(sys, &w.conv); }).is_ok() {
                    scm_case(ctx, format!("scm {} convert {} {} {full}", w.tag, if sys == cooklang::convert::System::Metric { "metric" } else { "imperial" }, bits(f)), &meta_before, &conv, &format!("{inp}, convert({sys:?})"));
                }
            }
        }
        Ok(None) => {}
        Err(p) => ctx.oracle_fail(inp, format!("panic {p}"), panic_signature(&p)),
    }
    // scale_to_servings(target)
    let servings = before.servings().map(|s| s.to_vec());
    let sspec = match &servings { None => "none".to_string(), Some(s) if s.is_empty() => "-".into(), Some(s) => s.iter().map(|x| x.to_string()).collect::<Vec<_>>().join(",") };
    ctx.count(&format!("servings:{}", match &servings { None => "absent", Some(s) if s.is_empty() => "empty", Some(s) if s.len() == 1 => "one", _ => "many" }));
    let inp = format!("{input}, scale_to_servings({target})");
    match guarded(|| parse().map(|r| r.scale_to_servings(target, &w.conv))) {
        Ok(Some(after)) => {
            ctx.case(format!("sc {} servings {target} {sspec} {items}", w.tag), render_scaled(&after), nontrivial, inp.clone());
            if let Some(full) = &full {
                match &force_servings {
                    None => scm_case(ctx, format!("scm {} servings {target} {full}", w.tag), &meta_before, &after, &inp),
                    Some(s) => { ctx.count("scm:set_servings"); scm_case(ctx, format!("scm {} setservings {target} {} {full}", w.tag, crate::recipe_sexp::list(s, |n| n.to_string())), &meta_before, &after, &inp) }
                }
            }
            // the base is the FIRST DECLARED value (read from what the generator wrote, not from the API)
            if force_servings.is_none() { if let (Some(d), Some(api)) = (&spec.declared_servings, &servings) { if d != api {
                ctx.oracle_fail(inp.clone(), format!("servings() returns {api:?}, declared in this order: {d:?}"), "c08:servings-order".into()); } } }
            let base = match (&force_servings, &spec.declared_servings) { (Some(f), _) => f.first().copied(), (None, Some(d)) => d.first().copied(), (None, None) => servings.as_ref().and_then(|s| s.first().copied()) }.unwrap_or(1);
            if base > 0 && target > 0 {
                let fs = target as f64 / base as f64;
                if let Ok(Some(direct)) = guarded(|| parse().map(|r| r.scale(fs, &w.conv))) {
                    if serde_json::to_string(&after).unwrap() != serde_json::to_string(&direct).unwrap() {
                        ctx.oracle_fail(inp.clone(), format!("differs from scale({target}/{base})"), "c08:servings".into());
                    }
                }
                check_scaled(ctx, w, &inp, &before, &after, fs);
            }
        }
        Ok(None) => {}
        Err(p) => ctx.oracle_fail(inp, format!("panic {p}"), panic_signature(&p)),
    }
    // default_scale()
    let inp = format!("{input}, default_scale()");
    match guarded(|| parse().map(|r| r.default_scale())) {
        Ok(Some(after)) => {
            ctx.case(format!("sc {} default {items}", w.tag), render_scaled_recipe(&after), nontrivial, inp.clone());
            check_default(ctx, &inp, &before, &after);
            if let (Some(full), None) = (&full, &force_servings) {
                scm_case(ctx, format!("scm {} default {full}", w.tag), &meta_before, &after, &inp);
                let mut conv = after;
                if guarded(|| { let _ = conv.convert(cooklang::convert::System::Imperial, &w.conv); }).is_ok() {
                    scm_case(ctx, format!("scm {} dconvert imperial {full}", w.tag), &meta_before, &conv, &format!("{inp}, convert(Imperial)"));
                }
            }
        }
        Ok(None) => {}
        Err(p) => ctx.oracle_fail(inp, format!("panic {p}"), panic_signature(&p)),
    }
}

pub fn run(ctx: &mut Ctx) {
    ctx.rule = "recipe texts generated from a structured description (ingredients with integer / decimal / fraction / mixed / range / text values, `=` locks, \
known / unknown / absent units, references with their own quantity, cookware, timers, inline temperatures, sections, servings as number / a|b / YAML list / absent / set_servings([])), \
parsed by the real CooklangParser (all extensions); the parsed quantities are sent to the model and scale(f) for f in {1/3, 1/2, 1, 2, 2.5, 10, 1e-3, 1e3} and random positive f, \
scale_to_servings(n) and default_scale() are compared (value bits, units, outcomes); the oracle is evaluated on the real results. \
non-trivial = the recipe has an ingredient quantity; distinct = distinct request lines".into();
    let w = bundled_world();
    if ctx.model().one("cv b wf") != "true" { ctx.notes.push("the generated converter description is not well formed (model refuses to run)".into()); }
    let mut rng = Rng::new(ctx.seed ^ 0xC08);
    let parser = CooklangParser::new(Extensions::all(), w.conv.clone());
    let factors = [1.0 / 3.0, 0.5, 1.0, 2.0, 2.5, 10.0, 1e-3, 1e3];
    // corpus first
    if let Ok(rd) = std::fs::read_dir("corpus/C08") {
        let mut files: Vec<_> = rd.filter_map(|e| e.ok()).map(|e| e.path()).collect();
        files.sort();
        for p in files { if let Ok(text) = std::fs::read_to_string(&p) {
            for &f in &factors { recipe_case(ctx, &w, &parser, &RecipeSpec { text: text.clone(), ingredients: vec![], declared_servings: None }, f, 3, None); }
            ctx.count("corpus");
        } }
    }
    let n = if ctx.thorough { 120_000 } else { 3_000 };
    let mut worlds = vec![(w, parser, n)];
    match alt_world() {
        Some(a) => { let p = CooklangParser::new(Extensions::all(), a.conv.clone()); worlds.push((a, p, n / 3)); ctx.count("world:alternative-units-file"); }
        None => ctx.notes.push("corpus/C09/alt_units.toml is missing or rejected by ConverterBuilder: second converter not exercised".into()),
    }
    for (w, parser, n) in &worlds {
        for i in 0..*n {
            let nt = i % 4 == 3;
            let spec = recipe_spec(&mut rng, w, nt);
            let parser_nt;
            let parser = if nt { parser_nt = CooklangParser::new(Extensions::all() - Extensions::TIMER_REQUIRES_TIME, w.conv.clone()); ctx.count("parser:without TIMER_REQUIRES_TIME"); &parser_nt } else { parser };
            // now and then a factor that takes amounts beyond u32 (the whole part of a fraction is a u32: casts saturate there)
            let f = if i % 3 == 0 { 0.05 + rng.unit_f64() * 20.0 } else if i % 17 == 5 { *rng.pick(&[3_000_000_001.0, 2_000_000_001.0, 4_294_967_296.5, 1e10, 858_993_459.3, 1e12]) } else { *rng.pick(&factors) };
            let target = if rng.chance(1, 20) { 0 } else { rng.range(1, 24) as u32 };
            let force = match rng.below(20) { 0 => Some(vec![]), 1 => Some(vec![rng.range(1, 9) as u32, 4]), _ => None };
            recipe_case(ctx, w, parser, &spec, f, target, force);
        }
    }
}
