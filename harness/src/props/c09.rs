//! C09 Unit conversion preserves the physical amount.
use crate::ctx::Ctx;
use crate::rng::Rng;
use crate::util::{bits, enc_text, guarded, panic_signature};
use cooklang::convert::{ConvertError, ConvertTo, ConvertUnit, ConvertValue, Converter, PhysicalQuantity, System, Unit};
use cooklang::quantity::{Number, Quantity, QuantityValue, ScaledQuantity, Value};
use cooklang::{CooklangParser, Extensions};
use std::sync::Arc;

// ---------------------------------------------------------------- canonical rendering (mirrors Driver/Convert.lean)

pub fn render_number(n: &Number) -> String {
    match n {
        Number::Regular(v) => format!("R {}", bits(*v)),
        Number::Fraction { whole, num, den, err } => format!("F {whole} {num} {den} {}", bits(*err)),
    }
}
pub fn render_value(v: &Value) -> String {
    match v {
        Value::Number(n) => format!("(num {})", render_number(n)),
        Value::Range { start, end } => format!("(range {} {})", render_number(start), render_number(end)),
        Value::Text(t) => format!("(text {})", enc_text(t)),
    }
}
pub fn render_quantity(q: &ScaledQuantity) -> String {
    let u = match q.unit() { None => "none".to_string(), Some(u) => format!("u{}", enc_text(u)) };
    format!("{} {}", render_value(q.value()), u)
}
pub fn render_opt_quantity(q: Option<&ScaledQuantity>) -> String { q.map(render_quantity).unwrap_or_else(|| "none".into()) }
fn sys_name(s: System) -> &'static str { match s { System::Metric => "metric", System::Imperial => "imperial" } }
fn opt_sys_name(s: Option<System>) -> &'static str { s.map(sys_name).unwrap_or("-") }
pub fn render_err(e: &ConvertError) -> String {
    match e {
        ConvertError::NoUnit(_) => "NoUnit".into(),
        ConvertError::TextValue(t) => format!("TextValue {}", enc_text(t)),
        ConvertError::MixedQuantities { from, to } => format!("Mixed {from} {to}"),
        ConvertError::BestUnitNotFound { physical_quantity, system } => format!("BestUnitNotFound {physical_quantity} {}", opt_sys_name(*system)),
        ConvertError::UnknownUnit(u) => format!("UnknownUnit {}", enc_text(&u.0)),
    }
}
fn render_cv(v: &ConvertValue) -> String {
    match v {
        ConvertValue::Number(n) => format!("n{}", bits(*n)),
        ConvertValue::Range(r) => format!("r{}_{}", bits(*r.start()), bits(*r.end())),
    }
}
fn render_unit_res(r: &Result<(), ConvertError>) -> String { match r { Ok(()) => "ok".into(), Err(e) => format!("err {}", render_err(e)) } }

// ---------------------------------------------------------------- request encoding

fn spec_number(n: &Number) -> String {
    match n {
        Number::Regular(v) => format!("R{}", bits(*v)),
        Number::Fraction { whole, num, den, err } => format!("F{whole}/{num}/{den}/{}", bits(*err)),
    }
}
pub fn spec_value(v: &Value) -> String {
    match v {
        Value::Number(n) => format!("N{}", spec_number(n)),
        Value::Range { start, end } => format!("G{};{}", spec_number(start), spec_number(end)),
        Value::Text(t) => format!("T{}", enc_text(t)),
    }
}
pub fn spec_unit(u: Option<&str>) -> String { match u { None => "none".to_string(), Some(u) => format!("u{}", enc_text(u)) } }
pub fn spec_quantity(q: &ScaledQuantity) -> String { format!("{}@{}", spec_value(q.value()), spec_unit(q.unit())) }
fn spec_cv(v: &ConvertValue) -> String { render_cv(v) }

#[derive(Clone, Debug)]
pub enum Target { Key(String), Best(System), Same }
impl Target {
    fn spec(&self) -> String {
        match self { Target::Key(k) => format!("u{}", enc_text(k)), Target::Best(s) => format!("s{}", sys_name(*s)), Target::Same => "same".into() }
    }
    fn to(&self) -> ConvertTo<'_> {
        match self { Target::Key(k) => ConvertTo::Unit(ConvertUnit::Key(k)), Target::Best(s) => ConvertTo::Best(*s), Target::Same => ConvertTo::SameSystem }
    }
}

// ---------------------------------------------------------------- the standard definitions (independent of units.toml)

/// (ratio to the base unit l / m / g / s / K, additive offset in the unit's own degrees)
pub fn std_def(symbol: &str) -> Option<(f64, f64)> {
    const GAL: f64 = 3.785411784;
    const LB: f64 = 453.59237;
    Some(match symbol {
        "l" => (1.0, 0.0), "kl" => (1e3, 0.0), "hl" => (1e2, 0.0), "dal" => (1e1, 0.0), "dl" => (1e-1, 0.0), "cl" => (1e-2, 0.0), "ml" => (1e-3, 0.0),
        "tsp" => (GAL / 768.0, 0.0), "tbsp" => (GAL / 256.0, 0.0), "fl oz" => (GAL / 128.0, 0.0), "c" => (GAL / 16.0, 0.0),
        "pt" => (GAL / 8.0, 0.0), "qt" => (GAL / 4.0, 0.0), "gal" => (GAL, 0.0),
        "m" => (1.0, 0.0), "km" => (1e3, 0.0), "hm" => (1e2, 0.0), "dam" => (1e1, 0.0), "dm" => (1e-1, 0.0), "cm" => (1e-2, 0.0), "mm" => (1e-3, 0.0),
        "ft" => (0.3048, 0.0), "in" => (0.0254, 0.0),
        "g" => (1.0, 0.0), "kg" => (1e3, 0.0), "hg" => (1e2, 0.0), "dag" => (1e1, 0.0), "dg" => (1e-1, 0.0), "cg" => (1e-2, 0.0), "mg" => (1e-3, 0.0),
        "oz" => (LB / 16.0, 0.0), "lb" => (LB, 0.0),
        "s" => (1.0, 0.0), "min" => (60.0, 0.0), "h" => (3600.0, 0.0), "d" => (86400.0, 0.0),
        "°C" => (1.0, 273.15), "°F" => (5.0 / 9.0, 459.67),
        _ => return None,
    })
}

/// standard definitions by ANY conventional key of a unit (names, plurals, secondary symbols), not only the first symbol:
/// a converter may not attach one of these spellings to a unit of another size
pub fn std_def_key(key: &str) -> Option<(f64, f64)> {
    let sym = match key {
        "'" | "foot" | "feet" => "ft", "\"" | "inch" | "inches" => "in",
        "liter" | "liters" | "litre" | "litres" | "L" => "l", "milliliter" | "milliliters" | "millilitre" | "millilitres" | "mL" => "ml",
        "teaspoon" | "teaspoons" => "tsp", "tablespoon" | "tablespoons" | "tbs" => "tbsp", "cup" | "cups" => "c", "pint" | "pints" => "pt", "quart" | "quarts" => "qt", "gallon" | "gallons" => "gal",
        "fluid ounce" | "fluid ounces" | "floz" | "fl. oz." => "fl oz",
        "meter" | "meters" | "metre" | "metres" => "m", "centimeter" | "centimeters" | "centimetre" | "centimetres" => "cm", "millimeter" | "millimeters" => "mm", "kilometer" | "kilometers" => "km",
        "gram" | "grams" => "g", "kilogram" | "kilograms" => "kg", "milligram" | "milligrams" => "mg", "ounce" | "ounces" => "oz", "pound" | "pounds" | "lbs" => "lb",
        "second" | "seconds" | "sec" | "secs" => "s", "minute" | "minutes" | "mins" => "min", "hour" | "hours" | "hr" | "hrs" => "h", "day" | "days" => "d",
        "celsius" | "C" | "ºC" | "℃" => "°C", "fahrenheit" | "F" | "ºF" | "℉" => "°F",
        k => k,
    };
    std_def(sym)
}

fn amount(v: f64, ratio: f64, diff: f64) -> f64 { (v + diff) * ratio }
pub fn amount_u(v: f64, u: &Unit) -> f64 { amount(v, u.ratio, u.difference) }
/// scale against which an amount difference is judged (so that offsets do not make 0 K special)
pub fn scale_u(v: f64, u: &Unit) -> f64 { (v.abs() + u.difference.abs()) * u.ratio.abs() }
pub fn close(a: f64, b: f64, scale: f64, rel: f64) -> bool { (a - b).abs() <= rel * scale.max(a.abs()).max(b.abs()) + 1e-300 }

fn cv_parts(v: &ConvertValue) -> Vec<f64> { match v { ConvertValue::Number(n) => vec![*n], ConvertValue::Range(r) => vec![*r.start(), *r.end()] } }
pub fn value_parts(v: &Value) -> Option<Vec<f64>> {
    match v { Value::Number(n) => Some(vec![n.value()]), Value::Range { start, end } => Some(vec![start.value(), end.value()]), Value::Text(_) => None }
}
pub fn in_oracle_range(v: f64) -> bool { v.is_finite() && (v == 0.0 || (v.abs() >= 1e-9 && v.abs() <= 1e12)) }

pub struct World {
    pub conv: Converter,
    pub units: Vec<Arc<Unit>>,
    pub tag: &'static str,
}

impl World {
    fn symbols(&self) -> Vec<String> { self.units.iter().map(|u| u.symbol().to_string()).collect() }
    fn best_symbols(&self, q: PhysicalQuantity, s: System) -> Vec<String> { self.conv.best_units(q, Some(s)).iter().map(|u| u.symbol().to_string()).collect() }
    fn system_of(&self, u: &Unit) -> System { u.system.unwrap_or(self.conv.default_system()) }
}

fn unit_row(id: usize, u: &Unit) -> String {
    let l = |xs: &Vec<Arc<str>>| xs.iter().map(|s| enc_text(s)).collect::<Vec<_>>().join("|");
    format!("{id};{};{};{};{};{};{};{}", l(&u.names), l(&u.symbols), l(&u.aliases), bits(u.ratio), bits(u.difference), u.physical_quantity, opt_sys_name(u.system))
}

const QUANTITIES: [PhysicalQuantity; 5] = [PhysicalQuantity::Volume, PhysicalQuantity::Mass, PhysicalQuantity::Length, PhysicalQuantity::Temperature, PhysicalQuantity::Time];
const SYSTEMS: [System; 2] = [System::Metric, System::Imperial];

// ---------------------------------------------------------------- table level

fn table_checks(ctx: &mut Ctx, w: &World) {
    let t = w.tag;
    let rows: Vec<String> = w.units.iter().enumerate().map(|(i, u)| unit_row(i, u)).collect();
    ctx.case(format!("cv {t} units"), rows.join(" "), true, "unit table of the converter vs the generated one".into());
    ctx.count_n("units", w.units.len() as u64);
    for q in QUANTITIES { for s in SYSTEMS {
        let syms: Vec<String> = w.conv.best_units(q, Some(s)).iter().map(|u| enc_text(u.symbol())).collect();
        ctx.case(format!("cv {t} best {q} {}", sys_name(s)), syms.join(" "), true, format!("best units of {q}/{s}"));
    } }
    // every key of every unit resolves to it, in the model too
    for (i, u) in w.units.iter().enumerate() {
        for k in u.names.iter().chain(u.symbols.iter()).chain(u.aliases.iter()) {
            let r = w.conv.find_unit(k).and_then(|f| w.units.iter().position(|x| Arc::ptr_eq(x, &f)));
            ctx.case(format!("cv {t} find {}", enc_text(k)), r.map(|x| x.to_string()).unwrap_or("none".into()), true, format!("find_unit({k:?})"));
            if r != Some(i) { ctx.oracle_fail(format!("find_unit({k:?})"), format!("key of unit {i} resolves to {r:?}"), "c09:index".into()); }
        }
    }
    // shipped definitions against the standard ones (normalised by the first unit of each quantity)
    for q in QUANTITIES {
        let us: Vec<&Arc<Unit>> = w.units.iter().filter(|u| u.physical_quantity == q).collect();
        let Some(u0) = us.iter().find(|u| std_def(u.symbol()).is_some()) else { continue };
        let s0 = std_def(u0.symbol()).unwrap();
        // every conventional key of every unit (a secondary symbol such as `'` or `"`, a plural) has to sit on a unit of its size
        for u in &us {
            for k in u.names.iter().chain(u.symbols.iter()).chain(u.aliases.iter()) {
                if let Some((r, d)) = std_def_key(k) {
                    ctx.count("unit_keys_checked_against_standard_definition");
                    if !(close(u.ratio / u0.ratio, r / s0.0, 0.0, 1e-6) && close(u.difference, d, 0.0, 1e-6)) {
                        ctx.oracle_fail(format!("key {k:?} of unit {:?} of the converter: ratio {:?} difference {:?}", u.symbol(), u.ratio, u.difference),
                            format!("a unit written {k:?} conventionally has ratio {r:?} relative to {:?} and offset {d:?}", u0.symbol()), "c09:std-key".into());
                    }
                }
            }
        }
        for u in &us {
            match std_def(u.symbol()) {
                None => { ctx.count("units_without_standard_definition"); }
                Some((r, d)) => {
                    ctx.count("units_checked_against_standard_definition");
                    let ok = close(u.ratio / u0.ratio, r / s0.0, 0.0, 1e-6) && close(u.difference, d, 0.0, 1e-6);
                    if !ok {
                        ctx.oracle_fail(format!("unit {:?} of the converter: ratio {:?} difference {:?}", u.symbol(), u.ratio, u.difference),
                            format!("differs from the standard definition (ratio {r:?} relative to {:?}, offset {d:?}) by more than 1e-6", u0.symbol()), "c09:std".into());
                    }
                }
            }
        }
    }
}

// ---------------------------------------------------------------- Converter::convert

fn do_convert(w: &World, v: &ConvertValue, from: &str, to: &Target) -> Result<Result<(ConvertValue, Arc<Unit>), ConvertError>, String> {
    guarded(|| w.conv.convert(v.clone(), ConvertUnit::Key(from), to.to()))
}

/// one `Converter::convert` call: correspondence + oracle
fn conv_case(ctx: &mut Ctx, w: &World, v: ConvertValue, from: &str, to: Target, oracle: bool) {
    let input = format!("Converter::convert({v:?}, {from:?}, {to:?}) [{}]", w.tag);
    let r = match do_convert(w, &v, from, &to) {
        Ok(r) => r,
        Err(p) => { ctx.oracle_fail(input, format!("panic {p}"), panic_signature(&p)); return; }
    };
    let reply = match &r { Ok((nv, u)) => format!("ok {} {}", render_cv(nv), enc_text(u.symbol())), Err(e) => format!("err {}", render_err(e)) };
    ctx.count(&format!("conv:{}", match &r { Ok(_) => "ok".to_string(), Err(e) => render_err(e).split(' ').next().unwrap().to_string() }));
    ctx.case(format!("cv {} conv {} {} {}", w.tag, spec_cv(&v), enc_text(from), to.spec()), reply, r.is_ok(), input.clone());
    if !oracle { return; }
    let fu = w.conv.find_unit(from);
    let tu = match &to { Target::Key(k) => w.conv.find_unit(k), _ => None };
    // must-fail cases
    let must_fail = fu.is_none() || matches!(&to, Target::Key(_) if tu.is_none())
        || matches!((&fu, &tu), (Some(a), Some(b)) if a.physical_quantity != b.physical_quantity);
    if must_fail {
        if r.is_ok() { ctx.oracle_fail(input, "conversion of an unknown unit / across physical quantities succeeded".into(), "c09:should-fail".into()); }
        return;
    }
    let fu = fu.unwrap();
    let (nv, nu) = match r {
        Ok(x) => x,
        Err(e) => { ctx.oracle_fail(input, format!("conversion between known units of one quantity failed: {e}"), "c09:should-succeed".into()); return; }
    };
    let parts = cv_parts(&v); let nparts = cv_parts(&nv);
    if parts.len() != nparts.len() { ctx.oracle_fail(input, "number/range shape changed".into(), "c09:shape".into()); return; }
    if !parts.iter().all(|x| in_oracle_range(*x)) { return; }
    if nu.physical_quantity != fu.physical_quantity { ctx.oracle_fail(input, format!("result unit {} has another physical quantity", nu.symbol()), "c09:quantity".into()); return; }
    // designated list
    match &to {
        Target::Best(s) => {
            if !w.best_symbols(fu.physical_quantity, *s).iter().any(|x| x == nu.symbol()) {
                ctx.oracle_fail(input.clone(), format!("unit {} is not in the best list of {}/{s}", nu.symbol(), fu.physical_quantity), "c09:system-member".into());
            }
        }
        Target::Same => {
            let s = w.system_of(&fu);
            if !w.best_symbols(fu.physical_quantity, s).iter().any(|x| x == nu.symbol()) {
                ctx.oracle_fail(input.clone(), format!("unit {} is not in the best list of {}/{s}", nu.symbol(), fu.physical_quantity), "c09:system-member".into());
            }
        }
        Target::Key(_) => {
            if nu.symbol() != tu.as_ref().unwrap().symbol() { ctx.oracle_fail(input.clone(), "result unit is not the requested one".into(), "c09:target".into()); }
        }
    }
    for (x, y) in parts.iter().zip(nparts.iter()) {
        // amount by the converter's own definitions
        let (a, b) = (amount_u(*x, &fu), amount_u(*y, &nu));
        if !close(a, b, scale_u(*x, &fu).max(scale_u(*y, &nu)), 1e-9) {
            ctx.oracle_fail(input.clone(), format!("amount {a:?} became {b:?} ({x:?} {} -> {y:?} {})", fu.symbol(), nu.symbol()), "c09:amount".into());
        }
        // amount by the standard definitions
        if let (Some(sf), Some(st)) = (std_def(fu.symbol()), std_def(nu.symbol())) {
            let (a, b) = (amount(*x, sf.0, sf.1), amount(*y, st.0, st.1));
            if !close(a, b, ((x.abs() + sf.1.abs()) * sf.0).max((y.abs() + st.1.abs()) * st.0), 1e-6) {
                ctx.oracle_fail(input.clone(), format!("by the standard definitions {x:?} {} is {a:?} base units, the result {y:?} {} is {b:?}", fu.symbol(), nu.symbol()), "c09:std-amount".into());
            }
        }
    }
}

/// there-and-back and via-a-third-unit, on the implementation only
fn roundtrip_triangle(ctx: &mut Ctx, w: &World, v: f64, a: &Arc<Unit>, b: &Arc<Unit>, c: Option<&Arc<Unit>>) {
    let conv1 = |x: f64, f: &Arc<Unit>, t: &Arc<Unit>| -> Option<f64> {
        match guarded(|| w.conv.convert(ConvertValue::Number(x), ConvertUnit::Unit(f), ConvertTo::Unit(ConvertUnit::Unit(t)))) {
            Ok(Ok((ConvertValue::Number(y), _))) => Some(y),
            _ => None,
        }
    };
    let input = format!("{v:?} {} -> {} {}[{}]", a.symbol(), b.symbol(), c.map(|c| format!("via {} ", c.symbol())).unwrap_or_default(), w.tag);
    ctx.eval(&input, true);
    let Some(direct) = conv1(v, a, b) else { ctx.oracle_fail(input, "direct conversion failed".into(), "c09:should-succeed".into()); return; };
    let Some(back) = conv1(direct, b, a) else { ctx.oracle_fail(input, "conversion back failed".into(), "c09:should-succeed".into()); return; };
    // tolerance in units of `a`: the offsets of both units take part in the computation
    let sc = v.abs() + a.difference.abs() + (b.difference.abs() * b.ratio / a.ratio).abs();
    if !close(back, v, sc, 1e-9) { ctx.oracle_fail(input.clone(), format!("there and back gives {back:?}"), "c09:roundtrip".into()); }
    ctx.count("oracle:roundtrip");
    if let Some(c) = c {
        let Some(mid) = conv1(v, a, c) else { ctx.oracle_fail(input, "conversion to the third unit failed".into(), "c09:should-succeed".into()); return; };
        let Some(via) = conv1(mid, c, b) else { ctx.oracle_fail(input, "conversion from the third unit failed".into(), "c09:should-succeed".into()); return; };
        let scb = direct.abs() + b.difference.abs() + (a.difference.abs() * a.ratio / b.ratio).abs() + (c.difference.abs() * c.ratio / b.ratio).abs();
        if !close(via, direct, scb, 1e-9) { ctx.oracle_fail(input.clone(), format!("direct {direct:?}, via the third unit {via:?}"), "c09:triangle".into()); }
        ctx.count("oracle:triangle");
    }
}

// ---------------------------------------------------------------- quantities

#[derive(Clone, Copy, Debug, PartialEq)]
pub enum QOp { Convert, Fit, TryFraction }

/// the unit the quantity is expected to end in a list of (None = no claim)
fn designated(w: &World, before: &ScaledQuantity, op: QOp, to: Option<&Target>) -> Option<(PhysicalQuantity, System)> {
    let u = before.unit().and_then(|u| w.conv.find_unit(u))?;
    match (op, to) {
        (QOp::Convert, Some(Target::Best(s))) => Some((u.physical_quantity, *s)),
        (QOp::Convert, Some(Target::Same)) => Some((u.physical_quantity, w.system_of(&u))),
        // fitting a unit that belongs to no system may keep it (there is no "that system")
        (QOp::Fit, _) => u.system.map(|s| (u.physical_quantity, s)),
        _ => None,
    }
}

/// checks on one quantity operation of the implementation; `after`/`res` are its outcome on `before`
fn quantity_oracle(ctx: &mut Ctx, w: &World, input: &str, before: &ScaledQuantity, after: &ScaledQuantity, failed: Option<&ConvertError>, op: QOp, to: Option<&Target>) {
    let unit_before = before.unit().and_then(|u| w.conv.find_unit(u));
    if let Some(e) = failed {
        if render_quantity(before) != render_quantity(after) {
            ctx.oracle_fail(input.into(), format!("failed with {e} but the quantity changed to {}", after), "c09:failure-changed".into());
        }
        return;
    }
    // cases that have to fail
    if op == QOp::Convert {
        let tu = match to { Some(Target::Key(k)) => Some(w.conv.find_unit(k)), _ => None };
        let cross = matches!((&unit_before, &tu), (Some(a), Some(Some(b))) if a.physical_quantity != b.physical_quantity);
        if before.unit().is_none() || unit_before.is_none() || before.value().is_text() || matches!(tu, Some(None)) || cross {
            ctx.oracle_fail(input.into(), "conversion of a unit-less / unknown-unit / text / cross-quantity value succeeded".into(), "c09:should-fail".into());
            return;
        }
    }
    let (Some(ub), Some(pb)) = (unit_before, value_parts(before.value())) else {
        // nothing convertible: fit / try_fraction must leave it alone
        if render_quantity(before) != render_quantity(after) {
            ctx.oracle_fail(input.into(), format!("a quantity that cannot be converted changed to {after}"), "c09:failure-changed".into());
        }
        return;
    };
    let Some(ua) = after.unit().and_then(|u| w.conv.find_unit(u)) else {
        ctx.oracle_fail(input.into(), format!("result unit {:?} is not a known unit", after.unit()), "c09:target".into()); return;
    };
    let Some(pa) = value_parts(after.value()) else { ctx.oracle_fail(input.into(), "value became text".into(), "c09:shape".into()); return; };
    if pa.len() != pb.len() { ctx.oracle_fail(input.into(), "number/range shape changed".into(), "c09:shape".into()); return; }
    if ua.physical_quantity != ub.physical_quantity { ctx.oracle_fail(input.into(), "physical quantity changed".into(), "c09:quantity".into()); return; }
    if !pb.iter().all(|x| in_oracle_range(*x)) { return; }
    if op == QOp::TryFraction && ua.symbol() != ub.symbol() { ctx.oracle_fail(input.into(), "try_fraction changed the unit".into(), "c09:target".into()); }
    if let Some(Target::Key(k)) = to { if op == QOp::Convert {
        if w.conv.find_unit(k).map(|t| t.symbol().to_string()) != Some(ua.symbol().to_string()) { ctx.oracle_fail(input.into(), "result unit is not the requested one".into(), "c09:target".into()); }
    } }
    if let Some((q, s)) = designated(w, before, op, to) {
        if !w.best_symbols(q, s).iter().any(|x| x == ua.symbol()) {
            ctx.oracle_fail(input.into(), format!("unit {} is not in the best list of {q}/{s}", ua.symbol()), "c09:system-member".into());
        }
    }
    for (x, y) in pb.iter().zip(pa.iter()) {
        let (a, b) = (amount_u(*x, &ub), amount_u(*y, &ua));
        if !close(a, b, scale_u(*x, &ub).max(scale_u(*y, &ua)), 1e-9) {
            ctx.oracle_fail(input.into(), format!("amount {a:?} became {b:?} ({before} -> {after}, fraction error included)"), "c09:amount".into());
        }
    }
    // a fraction's parts have to describe the value: value = whole + num/den + err
    let nums: Vec<&Number> = match after.value() { Value::Number(n) => vec![n], Value::Range { start, end } => vec![start, end], _ => vec![] };
    for n in nums { if let Number::Fraction { den, .. } = n { if *den == 0 { ctx.oracle_fail(input.into(), "fraction with denominator 0".into(), "c09:shape".into()); } } }
}

pub fn quantity_case(ctx: &mut Ctx, w: &World, q: &ScaledQuantity, op: QOp, to: Option<Target>) {
    let input = match (&op, &to) {
        (QOp::Convert, Some(t)) => format!("({q:?}).convert({t:?}) [{}]", w.tag),
        (QOp::Fit, _) => format!("({q:?}).fit() [{}]", w.tag),
        _ => format!("({q:?}).try_fraction() [{}]", w.tag),
    };
    let mut after = q.clone();
    let r = guarded(|| match (&op, &to) {
        (QOp::Convert, Some(t)) => after.convert(t.to(), &w.conv).map(|_| None),
        (QOp::Fit, _) => after.fit(&w.conv).map(|_| None),
        _ => Ok(Some(after.try_fraction(&w.conv))),
    });
    let r = match r { Ok(r) => r, Err(p) => { ctx.oracle_fail(input, format!("panic {p}"), panic_signature(&p)); return; } };
    let (opname, tspec) = match (&op, &to) { (QOp::Convert, Some(t)) => ("qconvert", format!(" {}", t.spec())), (QOp::Fit, _) => ("qfit", String::new()), _ => ("qtryfrac", String::new()) };
    let head = match &r { Ok(None) => "ok".to_string(), Ok(Some(b)) => b.to_string(), Err(e) => format!("err {}", render_err(e)) };
    let changed = render_quantity(q) != render_quantity(&after);
    ctx.count(&format!("{opname}:{}{}", head.split(' ').take(2).collect::<Vec<_>>().join("-"), if changed { "" } else { ":unchanged" }));
    match after.value() {
        Value::Number(Number::Fraction { num, .. }) => ctx.count(if *num == 0 { "result:rounded-fraction" } else { "result:fraction" }),
        Value::Range { start: Number::Fraction { .. }, .. } | Value::Range { end: Number::Fraction { .. }, .. } => ctx.count("result:range-with-fraction"),
        _ => {}
    }
    ctx.case(format!("cv {} {opname} {}{tspec}", w.tag, spec_quantity(q)), format!("{head} | {}", render_quantity(&after)), changed, input.clone());
    quantity_oracle(ctx, w, &input, q, &after, r.as_ref().err(), op, to.as_ref());
}

// ---------------------------------------------------------------- generators

fn next_up(x: f64) -> f64 { if x == 0.0 { f64::from_bits(1) } else if x > 0.0 { f64::from_bits(x.to_bits() + 1) } else { f64::from_bits(x.to_bits() - 1) } }
fn next_down(x: f64) -> f64 { -next_up(-x) }

fn log_grid(n: usize) -> Vec<f64> {
    // n points from 1e-6 to 1e9, mantissas that are not round
    (0..n).map(|i| { let e = -6.0 + 15.0 * (i as f64) / ((n - 1).max(1) as f64); 10f64.powf(e) * 1.0371 }).collect()
}

const NICE: [f64; 22] = [0.125, 0.2, 0.25, 1.0 / 3.0, 0.5, 2.0 / 3.0, 0.75, 1.0, 1.5, 2.0, 2.25, 2.5, 3.0, 4.0, 5.0, 7.5, 10.0, 12.0, 16.0, 100.0, 250.0, 1000.0];
const UNKNOWN_UNITS: [&str; 7] = ["bunch", "pinch", "", " ", "KG", "cups ", "grams of"];

pub fn random_key(rng: &mut Rng, w: &World) -> String {
    let u = rng.pick(&w.units);
    let keys: Vec<&Arc<str>> = u.names.iter().chain(u.symbols.iter()).chain(u.aliases.iter()).collect();
    if rng.chance(3, 4) { u.symbol().to_string() } else { rng.pick(&keys).to_string() }
}

fn random_number(rng: &mut Rng) -> f64 {
    match rng.below(6) {
        0 => *rng.pick(&NICE),
        1 => *rng.pick(&NICE) * 10f64.powi(rng.range(-3, 4) as i32),
        2 => 10f64.powf(rng.unit_f64() * 12.0 - 4.0),
        3 => (rng.below(400) as f64) / 8.0,
        4 => rng.below(50) as f64 + *rng.pick(&[0.0, 0.0001, 0.9999, 0.5, 0.3333, 0.26, 0.24, 0.05]),
        _ => rng.unit_f64() * 100.0,
    }
}

fn random_num(rng: &mut Rng, v: f64) -> Number {
    if rng.chance(1, 6) && v > 0.0 && v < 1e6 {
        // a fraction whose parts add up to v
        let den = *rng.pick(&[1u32, 2, 3, 4, 8, 10, 16]);
        let whole = v.trunc() as u32;
        let num = if den == 1 { 0 } else { ((v.fract() * den as f64).floor() as u32).min(den - 1) };
        let err = v - (whole as f64 + num as f64 / den as f64);
        Number::Fraction { whole, num, den, err }
    } else { Number::Regular(v) }
}

fn random_value(rng: &mut Rng) -> Value {
    match rng.below(10) {
        0 => Value::Text(rng.pick(&["a pinch", "some", "", "1 or 2", "½"]).to_string()),
        1 | 2 => { let a = random_number(rng); let b = a + random_number(rng); Value::Range { start: random_num(rng, a), end: random_num(rng, b) } }
        _ => { let v = random_number(rng); Value::Number(random_num(rng, v)) }
    }
}

/// a value that is "nice" in some unit `t` of the same quantity, expressed in `from` (so that fractions are found)
fn nice_in_other_unit(rng: &mut Rng, w: &World, from: &Arc<Unit>) -> f64 {
    let same: Vec<&Arc<Unit>> = w.units.iter().filter(|u| u.physical_quantity == from.physical_quantity).collect();
    let t = *rng.pick(&same);
    let x = *rng.pick(&NICE) + if rng.chance(1, 3) { (rng.unit_f64() - 0.5) * 0.02 } else { 0.0 };
    match w.conv.convert(ConvertValue::Number(x), ConvertUnit::Unit(t), ConvertTo::Unit(ConvertUnit::Unit(from))) { Ok((ConvertValue::Number(y), _)) => y, _ => x }
}

pub fn random_quantity(rng: &mut Rng, w: &World) -> ScaledQuantity {
    let unit = match rng.below(12) {
        0 => None,
        1 => Some(rng.pick(&UNKNOWN_UNITS).to_string()),
        _ => Some(random_key(rng, w)),
    };
    let mut value = random_value(rng);
    if let (Some(u), true) = (unit.as_ref().and_then(|u| w.conv.find_unit(u)), rng.chance(1, 2)) {
        if let Value::Number(_) = value { value = Value::Number(Number::Regular(nice_in_other_unit(rng, w, &u))); }
        else if let Value::Range { .. } = value { let a = nice_in_other_unit(rng, w, &u); value = Value::Range { start: Number::Regular(a), end: Number::Regular(a * *rng.pick(&[1.5, 2.0, 1.25, 3.0])) }; }
    }
    Quantity::new(value, unit)
}

fn random_target(rng: &mut Rng, w: &World, q: &ScaledQuantity) -> Target {
    match rng.below(10) {
        0 | 1 | 2 => Target::Best(*rng.pick(&SYSTEMS)),
        3 => Target::Same,
        4 => Target::Key(rng.pick(&UNKNOWN_UNITS).to_string()),
        5 => Target::Key(random_key(rng, w)), // often another physical quantity
        _ => {
            // same physical quantity if the unit is known
            match q.unit().and_then(|u| w.conv.find_unit(u)) {
                Some(u) => { let same: Vec<&Arc<Unit>> = w.units.iter().filter(|x| x.physical_quantity == u.physical_quantity).collect(); Target::Key(rng.pick(&same).symbol().to_string()) }
                None => Target::Key(random_key(rng, w)),
            }
        }
    }
}

// ---------------------------------------------------------------- recipes

const ING: [&str; 8] = ["flour", "milk", "sugar", "olive oil", "eggs", "water", "butter", "salt"];

fn qty_text(rng: &mut Rng, w: &World) -> String {
    let val = match rng.below(8) {
        0 => "some".to_string(),
        1 => format!("{}-{}", rng.range(1, 5), rng.range(6, 12)),
        2 => format!("{}/{}", rng.range(1, 3), rng.pick(&[2, 3, 4, 8])),
        3 => format!("{} {}/{}", rng.range(1, 9), 1, rng.pick(&[2, 3, 4])),
        4 => format!("{}.{}", rng.range(0, 20), rng.range(1, 99)),
        _ => format!("{}", rng.pick(&[1, 2, 3, 5, 10, 15, 30, 100, 150, 250, 500, 750, 1000, 1500, 2000])),
    };
    let lock = if rng.chance(1, 8) { "=" } else { "" };
    match rng.below(10) {
        0 => format!("{lock}{val}"),
        1 => format!("{lock}{val}%{}", rng.pick(&["bunch", "pinch", "cloves"])),
        _ => format!("{lock}{val}%{}", random_key(rng, w)),
    }
}

fn recipe_text(rng: &mut Rng, w: &World) -> String {
    let mut s = String::new();
    if rng.chance(1, 3) { s.push_str(&format!(">> servings: {}\n\n", rng.range(1, 8))); }
    let n = rng.range(1, 6);
    for _ in 0..n {
        match rng.below(6) {
            0 => s.push_str(&format!("Wait ~{{{}}} then stir. ", qty_text(rng, w))),
            1 => s.push_str(&format!("Use a #pan{{{}}}. ", rng.range(1, 3))),
            2 => s.push_str(&format!("Bake at {} {} for a while. ", rng.range(100, 450), rng.pick(&["°C", "F", "C", "ºF"]))),
            3 => s.push_str(&format!("Add @{}{{}}. ", rng.pick(&ING))),
            4 if rng.chance(1, 2) => {
                // two amounts in one unit that differ only beyond the third decimal (they print alike), or by a factor of 4 below it
                let u = rng.pick_str(&["kg", "g", "l", "ml", "cup", "oz", "lb"]);
                let (a, b) = *rng.pick(&[("1.2504", "1.2496"), ("0.0004", "0.0001"), ("2.00049", "2.0004"), ("3.1", "3.10004")]);
                s.push_str(&format!("Mix @butter{{{a}%{u}}} with @flour{{{b}%{u}}}. "));
            }
            _ => s.push_str(&format!("Add @{}{{{}}}. ", rng.pick(&ING), qty_text(rng, w))),
        }
        if rng.chance(1, 4) { s.push_str("\n\n"); }
    }
    s
}

fn recipe_case(ctx: &mut Ctx, w: &World, parser: &CooklangParser, text: &str, factor: Option<f64>, system: System) {
    let input = format!("parse {text:?}, {} then convert({system}) [{}]", factor.map(|f| format!("scale({f:?})")).unwrap_or("default_scale()".into()), w.tag);
    let r = guarded(|| {
        let recipe = parser.parse(text).into_output()?;
        let mut scaled = match factor { Some(f) => recipe.scale(f, &w.conv), None => recipe.default_scale() };
        let before: (Vec<Option<ScaledQuantity>>, Vec<Option<ScaledQuantity>>, Vec<ScaledQuantity>) = (
            scaled.ingredients.iter().map(|i| i.quantity.clone()).collect(), scaled.timers.iter().map(|t| t.quantity.clone()).collect(), scaled.inline_quantities.clone());
        let cookware_before = format!("{:?}", scaled.cookware);
        let errors = scaled.convert(system, &w.conv);
        let after: (Vec<Option<ScaledQuantity>>, Vec<Option<ScaledQuantity>>, Vec<ScaledQuantity>) = (
            scaled.ingredients.iter().map(|i| i.quantity.clone()).collect(), scaled.timers.iter().map(|t| t.quantity.clone()).collect(), scaled.inline_quantities.clone());
        let cookware_same = cookware_before == format!("{:?}", scaled.cookware);
        Some((before, after, errors, cookware_same))
    });
    let (before, after, errors, cookware_same) = match r {
        Ok(Some(x)) => x,
        Ok(None) => { ctx.count("recipe:parse-failed"); return; }
        Err(p) => { ctx.oracle_fail(input, format!("panic {p}"), panic_signature(&p)); return; }
    };
    let all_before: Vec<Option<&ScaledQuantity>> = before.0.iter().map(|q| q.as_ref()).chain(before.1.iter().map(|q| q.as_ref())).chain(before.2.iter().map(Some)).collect();
    let all_after: Vec<Option<&ScaledQuantity>> = after.0.iter().map(|q| q.as_ref()).chain(after.1.iter().map(|q| q.as_ref())).chain(after.2.iter().map(Some)).collect();
    ctx.count_n("recipe:quantities", all_before.iter().flatten().count() as u64);
    ctx.count_n("recipe:errors", errors.len() as u64);
    let op = format!("cv {} recipe {} {} {} {} {}", w.tag, sys_name(system), before.0.len(), before.1.len(), before.2.len(),
        all_before.iter().map(|q| q.map(spec_quantity).unwrap_or("none".into())).collect::<Vec<_>>().join(" "));
    let reply = format!("{} # {}", all_after.iter().map(|q| render_opt_quantity(*q)).collect::<Vec<_>>().join(" ; "), errors.iter().map(render_err).collect::<Vec<_>>().join(" ; "));
    ctx.case(op.trim_end().to_string(), reply, all_before.iter().flatten().count() > 0, input.clone());
    // oracle: each quantity converted with its amount preserved, or left as is with exactly one error
    if !cookware_same { ctx.oracle_fail(input.clone(), "cookware changed".into(), "c09:recipe-collect".into()); }
    if all_before.len() != all_after.len() { ctx.oracle_fail(input.clone(), "number of quantities changed".into(), "c09:recipe-collect".into()); return; }
    let mut expected_errors = Vec::new();
    for (b, a) in all_before.iter().zip(all_after.iter()) {
        match (b, a) {
            (None, None) => {}
            (Some(b), Some(a)) => {
                // what the single-quantity conversion does to this quantity
                let mut single = (*b).clone();
                let res = single.convert(system, &w.conv);
                if render_quantity(&single) != render_quantity(a) { ctx.oracle_fail(input.clone(), format!("{b} became {a} in the recipe but {single} alone"), "c09:recipe-collect".into()); }
                quantity_oracle(ctx, w, &input, b, a, res.as_ref().err(), QOp::Convert, Some(&Target::Best(system)));
                if let Err(e) = res { expected_errors.push(render_err(&e)); }
            }
            _ => ctx.oracle_fail(input.clone(), "a quantity appeared or disappeared".into(), "c09:recipe-collect".into()),
        }
    }
    let got: Vec<String> = errors.iter().map(render_err).collect();
    if got != expected_errors { ctx.oracle_fail(input, format!("errors returned {got:?}, one per failing quantity would be {expected_errors:?}"), "c09:recipe-collect".into()); }
}

// ---------------------------------------------------------------- run

pub fn bundled_world() -> World {
    let conv = Converter::bundled();
    let units: Vec<Arc<Unit>> = conv.all_units().map(|u| conv.find_unit(u.symbol()).expect("unit by symbol")).collect();
    World { conv, units, tag: "b" }
}

/// the converter of corpus/C09/alt_units.toml, built by the real `ConverterBuilder`
pub fn alt_world() -> Option<World> {
    let text = std::fs::read_to_string("corpus/C09/alt_units.toml").ok()?;
    let file: cooklang::convert::UnitsFile = toml::from_str(&text).ok()?;
    let conv = Converter::builder().with_units_file(file).ok()?.finish().ok()?;
    let units: Vec<Arc<Unit>> = conv.all_units().map(|u| conv.find_unit(u.symbol()).expect("unit by symbol")).collect();
    Some(World { conv, units, tag: "a" })
}

/// the bundled units with corpus/C12/frac_layer.toml (fraction settings only) stacked on top, built by the real `ConverterBuilder`
pub fn layered_world() -> Option<World> {
    let text = std::fs::read_to_string("corpus/C12/frac_layer.toml").ok()?;
    let file: cooklang::convert::UnitsFile = toml::from_str(&text).ok()?;
    let conv = Converter::builder().with_bundled_units().ok()?.with_units_file(file).ok()?.finish().ok()?;
    let units: Vec<Arc<Unit>> = conv.all_units().map(|u| conv.find_unit(u.symbol()).expect("unit by symbol")).collect();
    Some(World { conv, units, tag: "l" })
}

fn run_world(ctx: &mut Ctx, w: &World, seed_tag: u64) {
    let mut rng = Rng::new(ctx.seed ^ 0xC09 ^ seed_tag);
    table_checks(ctx, w);
    let syms = w.symbols();
    let grid = log_grid(if ctx.thorough { 40 } else { 12 });

    // all ordered pairs x grid (+ ranges, negatives, zero)
    for (i, a) in w.units.iter().enumerate() {
        for (j, b) in w.units.iter().enumerate() {
            let same = a.physical_quantity == b.physical_quantity;
            for (k, &v) in grid.iter().enumerate() {
                if !same && k > 0 { break; }
                conv_case(ctx, w, ConvertValue::Number(v), &syms[i], Target::Key(syms[j].clone()), true);
                if same { roundtrip_triangle(ctx, w, v, a, b, None); }
            }
            if same {
                conv_case(ctx, w, ConvertValue::Range(grid[3]..=grid[5]), &syms[i], Target::Key(syms[j].clone()), true);
                for v in [0.0, -1.0, -40.0, 1.0, 100.0] { conv_case(ctx, w, ConvertValue::Number(v), &syms[i], Target::Key(syms[j].clone()), true); }
            }
        }
    }
    // triples
    let n_triples = if ctx.thorough { usize::MAX } else { 4000 };
    let mut done = 0usize;
    'outer: for a in &w.units { for b in &w.units { for c in &w.units {
        if a.physical_quantity != b.physical_quantity || a.physical_quantity != c.physical_quantity { continue; }
        if !ctx.thorough && !rng.chance(1, 3) { continue; }
        let vs: Vec<f64> = if ctx.thorough { grid.clone() } else { vec![*rng.pick(&grid), *rng.pick(&NICE)] };
        for v in vs { roundtrip_triangle(ctx, w, v, a, b, Some(c)); }
        done += 1; if done >= n_triples { break 'outer; }
    } } }

    // to a system / same system: grid, thresholds +-ulps, ranges
    for (i, a) in w.units.iter().enumerate() {
        let mut targets = vec![Target::Best(System::Metric), Target::Best(System::Imperial), Target::Same];
        for t in targets.drain(..) {
            for &v in &grid { conv_case(ctx, w, ConvertValue::Number(v), &syms[i], t.clone(), true); }
            conv_case(ctx, w, ConvertValue::Range(grid[2]..=grid[6]), &syms[i], t.clone(), true);
            conv_case(ctx, w, ConvertValue::Number(-grid[4]), &syms[i], t.clone(), true);
            conv_case(ctx, w, ConvertValue::Number(0.0), &syms[i], t.clone(), true);
            // thresholds of the target list
            let sys = match &t { Target::Best(s) => *s, _ => w.system_of(a) };
            let list = w.conv.best_units(a.physical_quantity, Some(sys));
            let Some(base) = list.first() else { continue };
            for u in &list {
                let Ok((ConvertValue::Number(th), _)) = w.conv.convert(ConvertValue::Number(1.0), ConvertUnit::Unit(u), ConvertTo::Unit(ConvertUnit::Unit(base))) else { continue };
                for edge in [th - 0.001, th, th + 0.001] {
                    let Ok((ConvertValue::Number(x), _)) = w.conv.convert(ConvertValue::Number(edge), ConvertUnit::Unit(base), ConvertTo::Unit(ConvertUnit::Unit(a))) else { continue };
                    let mut lo = x; let mut hi = x;
                    conv_case(ctx, w, ConvertValue::Number(x), &syms[i], t.clone(), true);
                    for _ in 0..3 { lo = next_down(lo); hi = next_up(hi);
                        conv_case(ctx, w, ConvertValue::Number(lo), &syms[i], t.clone(), true);
                        conv_case(ctx, w, ConvertValue::Number(hi), &syms[i], t.clone(), true);
                        conv_case(ctx, w, ConvertValue::Range(lo..=hi * 2.0), &syms[i], t.clone(), true); }
                    ctx.count("gen:threshold-edge");
                }
            }
        }
    }
    // keys other than the symbol, unknown keys, extreme values (correspondence only for the latter)
    for _ in 0..(if ctx.thorough { 20000 } else { 1500 }) {
        let from = if rng.chance(1, 8) { rng.pick(&UNKNOWN_UNITS).to_string() } else { random_key(&mut rng, w) };
        let to = if rng.chance(1, 8) { Target::Key(rng.pick(&UNKNOWN_UNITS).to_string()) } else if rng.chance(1, 2) { Target::Key(random_key(&mut rng, w)) } else { Target::Best(*rng.pick(&SYSTEMS)) };
        let v = random_number(&mut rng);
        conv_case(ctx, w, ConvertValue::Number(v), &from, to, true);
    }
    for &v in &[f64::NAN, f64::INFINITY, f64::NEG_INFINITY, 1e300, -1e300, 1e-320, f64::MAX, f64::MIN_POSITIVE, -0.0] {
        for i in 0..w.units.len() {
            let j = rng.below(w.units.len());
            conv_case(ctx, w, ConvertValue::Number(v), &syms[i], Target::Key(syms[j].clone()), false);
            conv_case(ctx, w, ConvertValue::Number(v), &syms[i], Target::Best(*rng.pick(&SYSTEMS)), false);
            conv_case(ctx, w, ConvertValue::Range(v..=1.0), &syms[i], Target::Same, false);
        }
    }

    // quantities: convert / fit / try_fraction
    // (a) systematic: every unit, nice values in every best unit of both systems
    for a in &w.units {
        for s in SYSTEMS {
            for t in w.conv.best_units(a.physical_quantity, Some(s)) {
                for &x in NICE.iter() {
                    for noise in [0.0, 0.004, -0.004] {
                        let xv = x * (1.0 + noise);
                        let Ok((ConvertValue::Number(v), _)) = w.conv.convert(ConvertValue::Number(xv), ConvertUnit::Unit(&t), ConvertTo::Unit(ConvertUnit::Unit(a))) else { continue };
                        let q: ScaledQuantity = Quantity::new(Value::Number(Number::Regular(v)), Some(a.symbol().to_string()));
                        quantity_case(ctx, w, &q, QOp::Convert, Some(Target::Best(s)));
                        if noise == 0.0 {
                            quantity_case(ctx, w, &q, QOp::Fit, None);
                            quantity_case(ctx, w, &q, QOp::Convert, Some(Target::Key(t.symbol().to_string())));
                            let qr: ScaledQuantity = Quantity::new(Value::Range { start: Number::Regular(v), end: Number::Regular(v * 1.5) }, Some(a.symbol().to_string()));
                            quantity_case(ctx, w, &qr, QOp::Convert, Some(Target::Best(s)));
                            quantity_case(ctx, w, &qr, QOp::Fit, None);
                        }
                    }
                }
            }
        }
    }
    // (b) random, including every failure kind
    for _ in 0..(if ctx.thorough { 1_000_000 } else { 12_000 }) {
        let q = random_quantity(&mut rng, w);
        match rng.below(8) {
            0 | 1 => quantity_case(ctx, w, &q, QOp::Fit, None),
            2 => quantity_case(ctx, w, &q, QOp::TryFraction, None),
            _ => { let t = random_target(&mut rng, w, &q); quantity_case(ctx, w, &q, QOp::Convert, Some(t)); }
        }
    }

    // whole recipes through the parser, scaling and ScaledRecipe::convert
    let parser = CooklangParser::new(Extensions::all(), w.conv.clone());
    for _ in 0..(if ctx.thorough { 60_000 } else { 1_200 }) {
        let text = recipe_text(&mut rng, w);
        let factor = match rng.below(4) { 0 => None, 1 => Some(1.0), 2 => Some(*rng.pick(&[0.5, 2.0, 3.0, 0.25, 10.0])), _ => Some(1.0 + rng.unit_f64() * 4.0) };
        recipe_case(ctx, w, &parser, &text, factor, *rng.pick(&SYSTEMS));
    }
}

/// "picks a unit from that system's designated list" when the list comes from a later layer: the layer names best units
/// only (no units of its own); the designated list is what the layer says, computed here from the layer text
fn layered_best_cases(ctx: &mut Ctx) {
    use cooklang::convert::{ConvertTo, UnitsFile};
    let layers: [(&str, PhysicalQuantity, System, &[&str]); 4] = [
        ("[[quantity]]\nquantity = \"volume\"\nbest = { metric = [\"l\"], imperial = [\"cup\"] }\n", PhysicalQuantity::Volume, System::Metric, &["l"]),
        ("[[quantity]]\nquantity = \"volume\"\nbest = { metric = [\"l\"], imperial = [\"cup\"] }\n", PhysicalQuantity::Volume, System::Imperial, &["c"]),
        ("[[quantity]]\nquantity = \"mass\"\nbest = { metric = [\"kg\"], imperial = [\"lb\"] }\n", PhysicalQuantity::Mass, System::Metric, &["kg"]),
        ("[[quantity]]\nquantity = \"time\"\nbest = [\"min\"]\n", PhysicalQuantity::Time, System::Metric, &["min"]),
    ];
    for (text, pq, sys, want) in layers {
        let desc = format!("bundled units + layer {text:?}");
        let built = guarded(|| { let f: UnitsFile = toml::from_str(text).map_err(|e| e.to_string())?; Converter::builder().with_bundled_units().map_err(|e| e.to_string())?.with_units_file(f).map_err(|e| e.to_string())?.finish().map_err(|e| e.to_string()) });
        let conv = match built { Ok(Ok(c)) => c, Ok(Err(e)) => { ctx.oracle_fail(desc, format!("a layer that only names best units is refused: {e}"), "c09:layer-refused".into()); continue; } Err(p) => { ctx.oracle_fail(desc, format!("panic {p}"), panic_signature(&p)); continue; } };
        ctx.eval("", true);
        let got: Vec<String> = conv.best_units(pq, Some(sys)).iter().map(|u| u.symbol().to_string()).collect();
        if got != want.iter().map(|s| s.to_string()).collect::<Vec<_>>() {
            ctx.oracle_fail(desc.clone(), format!("designated list of {pq:?}/{sys:?} is {got:?}, the later layer says {want:?}"), "c09:layer-best-list".into());
        }
        // and conversion to the system picks from it
        let from = match pq { PhysicalQuantity::Volume => "ml", PhysicalQuantity::Mass => "g", _ => "s" };
        let mut q: ScaledQuantity = Quantity::new(Value::Number(Number::Regular(1500.0)), Some(from.to_string()));
        if let Ok(Ok(())) = guarded(|| q.convert(ConvertTo::from(sys), &conv)) {
            let u = q.unit().unwrap_or("").to_string();
            let ok = conv.find_unit(&u).map(|x| want.contains(&x.symbol())).unwrap_or(false);
            if !ok { ctx.oracle_fail(desc, format!("1500 {from} converted to {sys:?} ends in {u:?}, not in the designated list {want:?}"), "c09:layer-designated".into()); }
        }
        ctx.count("layered-best-list");
    }
}

/// "preserves the physical amount" when a later layer REBASES a quantity: the layer edits the ratio of every declared unit of one
/// quantity by the same factor (`[extend.units] gram = { ratio = … }`), which changes no physical relation between units. The SI
/// expansions (kg, ml, …) have to follow their parent; every unit with a standard definition is checked against it (normalised by
/// the first such unit) and values are converted across all pairs. The layer is built from `UnitsFile::bundled()` itself, so a
/// changed units.toml changes the layer with it.
fn rebased_layer_cases(ctx: &mut Ctx) {
    use cooklang::convert::units_file::{Extend, ExtendUnitEntry, Units, UnitsFile};
    let bundled = UnitsFile::bundled();
    for q in [PhysicalQuantity::Mass, PhysicalQuantity::Volume, PhysicalQuantity::Length, PhysicalQuantity::Time] {
        for factor in [0.001f64, 12.0] {
            let mut map = std::collections::HashMap::new();
            for g in bundled.quantity.iter().filter(|g| g.quantity == q) {
                let entries: Vec<&cooklang::convert::units_file::UnitEntry> = match &g.units {
                    None => vec![],
                    Some(Units::Unified(v)) => v.iter().collect(),
                    Some(Units::BySystem { metric, imperial, unspecified }) => metric.iter().chain(imperial.iter()).chain(unspecified.iter()).collect(),
                };
                for e in entries {
                    let Some(key) = e.names.first().or(e.symbols.first()) else { continue };
                    map.insert(key.to_string(), ExtendUnitEntry { ratio: Some(e.ratio * factor), ..Default::default() });
                }
            }
            if map.is_empty() { continue; }
          // with and without a THIRD layer that addresses the same units under the same keys and only adds an alias to each
          // (a later layer that does not mention the ratio must leave the earlier layer's ratio in place)
          for third in [false, true] {
            let desc = format!("bundled units + a layer that multiplies the ratio of every declared {q} unit by {factor}{}", if third { " + a layer that only adds an alias to ONE of these units (under the same key)" } else { "" });
            let layer = UnitsFile { default_system: None, si: None, fractions: None, extend: Some(Extend { precedence: Default::default(), units: map.clone() }), quantity: vec![] };
            let alias_layer = UnitsFile { default_system: None, si: None, fractions: None, quantity: vec![],
                extend: Some(Extend { precedence: Default::default(), units: { let mut ks: Vec<&String> = map.keys().collect(); ks.sort(); ks.into_iter().take(1).map(|k| (k.clone(), ExtendUnitEntry { aliases: Some(vec![format!("{k}zz").into()]), ..Default::default() })).collect() } }) };
            let built = guarded(|| { let b = Converter::builder().with_bundled_units().map_err(|e| e.to_string())?.with_units_file(layer).map_err(|e| e.to_string())?; let b = if third { b.with_units_file(alias_layer).map_err(|e| e.to_string())? } else { b }; b.finish().map_err(|e| e.to_string()) });
            let conv = match built { Ok(Ok(c)) => c, Ok(Err(e)) => { ctx.oracle_fail(desc, format!("the rebasing layer is refused: {e}"), "c09:rebase-refused".into()); continue; } Err(p) => { ctx.oracle_fail(desc, format!("panic {p}"), panic_signature(&p)); continue; } };
            ctx.eval("", true);
            let us: Vec<Arc<Unit>> = conv.all_units().filter(|u| u.physical_quantity == q).filter_map(|u| conv.find_unit(u.symbol())).filter(|u| std_def(u.symbol()).is_some()).collect();
            let Some(u0) = us.first() else { continue };
            let s0 = std_def(u0.symbol()).unwrap();
            for u in &us {
                let (r, _) = std_def(u.symbol()).unwrap();
                ctx.count("rebased:units_checked_against_standard_definition");
                if !close(u.ratio / u0.ratio, r / s0.0, 0.0, 1e-6) {
                    ctx.oracle_fail(format!("{desc}: unit {:?} has ratio {:?}", u.symbol(), u.ratio),
                        format!("relative to {:?} (ratio {:?}) this differs from the standard definition ({:?}) by more than 1e-6", u0.symbol(), u0.ratio, r / s0.0), "c09:rebase-std".into());
                }
            }
            for a in &us { for b in &us {
                let v = 2.0f64;
                let got = guarded(|| conv.convert(ConvertValue::Number(v), ConvertUnit::Unit(a), ConvertTo::Unit(ConvertUnit::Unit(b))));
                ctx.count("rebased:pair-conversions");
                match got {
                    Ok(Ok((ConvertValue::Number(x), _))) => {
                        let want = v * std_def(a.symbol()).unwrap().0 / std_def(b.symbol()).unwrap().0;
                        if !close(x, want, 0.0, 1e-6) {
                            ctx.oracle_fail(format!("{desc}: {v} {} -> {}", a.symbol(), b.symbol()), format!("gives {x:?}, the physical amount is {want:?} {}", b.symbol()), "c09:rebase-amount".into());
                        }
                    }
                    Ok(Ok(_)) => {}
                    Ok(Err(e)) => ctx.oracle_fail(format!("{desc}: {v} {} -> {}", a.symbol(), b.symbol()), format!("conversion between units of one quantity fails: {e}"), "c09:rebase-fails".into()),
                    Err(p) => ctx.oracle_fail(format!("{desc}: {v} {} -> {}", a.symbol(), b.symbol()), format!("panic {p}"), panic_signature(&p)),
                }
            } }
          }
        }
    }
}

pub fn run(ctx: &mut Ctx) {
    layered_best_cases(ctx);
    rebased_layer_cases(ctx);
    ctx.rule = "Converter::convert over all ordered pairs of the units of the bundled converter x a log grid (1e-6..1e9) + zero, negatives, ranges; \
round trip on every pair and triangle over (a sample of) all same-quantity triples; conversion to both systems and to the same system from every unit on the grid \
and at every threshold of the target list (-0.001, 0, +0.001, each +-3 ulp); non-symbol keys, unknown keys, non-finite and extreme values; \
ScaledQuantity::{convert,fit,try_fraction} on values that are simple fractions in some best unit (exact and +-0.4%), ranges, fractions with err, text, unit-less, unknown units, \
cross-quantity and unknown targets; recipes through the real parser, scale/default_scale and ScaledRecipe::convert. \
non-trivial = the conversion succeeded / the quantity changed; distinct = distinct request lines".into();
    let w = bundled_world();
    if ctx.model().one("cv b wf") != "true" { ctx.notes.push("the generated converter description is not well formed (model refuses to run)".into()); }
    run_world(ctx, &w, 0);
    match alt_world() {
        Some(a) => {
            if ctx.model().one("cv a wf") != "true" { ctx.notes.push("the description generated from corpus/C09/alt_units.toml is not well formed (model refuses to run)".into()); }
            ctx.count("world:alternative-units-file");
            run_world(ctx, &a, 0xA17);
        }
        None => ctx.notes.push("corpus/C09/alt_units.toml is missing or rejected by ConverterBuilder: second converter not exercised".into()),
    }
}
