//! C12 Fraction approximation never misstates a value.
use crate::ctx::Ctx;
use crate::rng::Rng;
use crate::util::{bits, guarded, panic_signature};
use cooklang::quantity::Number;

const DOC_DENOMS: [u32; 9] = [2, 3, 4, 5, 8, 10, 16, 32, 64];

fn render(n: &Option<Number>) -> String {
    match n {
        None => "none".into(),
        Some(Number::Regular(v)) => format!("R {}", bits(*v)),
        Some(Number::Fraction { whole, num, den, err }) => format!("F {whole} {num} {den} {}", bits(*err)),
    }
}

fn ulp(x: f64) -> f64 { let b = x.abs().to_bits(); f64::from_bits(b + 1) - x.abs() }

/// what a reader understands by the printed form
fn denote(s: &str) -> Option<f64> {
    let parts: Vec<&str> = s.split(' ').collect();
    let frac = |p: &str| -> Option<f64> { let (n, d) = p.split_once('/')?; Some(n.parse::<f64>().ok()? / d.parse::<f64>().ok()?) };
    match parts.as_slice() {
        [a] if a.contains('/') => frac(a),
        [a] => a.parse::<f64>().ok(),
        [w, f] => Some(w.parse::<f64>().ok()? + frac(f)?),
        _ => None,
    }
}

pub fn one(ctx: &mut Ctx, v: f64, acc: f32, max_den: u8, max_whole: u32) {
    let r = guarded(|| Number::new_approx(v, acc, max_den, max_whole));
    let input = format!("new_approx({v:?} [bits {}], {acc:?}, {max_den}, {max_whole})", v.to_bits());
    let r = match r {
        Ok(r) => r,
        Err(p) => { ctx.oracle_fail(input, format!("panic {p}"), panic_signature(&p)); return; }
    };
    let op = format!("approx {} {} {} {}", bits(v), bits(acc as f64), max_den, max_whole);
    let kind = match &r { None => "none", Some(Number::Regular(_)) => "regular", Some(Number::Fraction { num: 0, .. }) => "rounded", Some(_) => "fraction" };
    ctx.count(&format!("result:{kind}"));
    ctx.case(op, render(&r), r.is_some(), input.clone());

    // oracle: the property's postconditions on the implementation's own result (f64, small tolerance)
    let accd = acc as f64;
    let mut fail = |m: String, sig: &str| ctx.oracle_fail(input.clone(), m, format!("c12:{sig}"));
    if !(v > 0.0) || !v.is_finite() {
        if r.is_some() { fail(format!("non-positive/non-finite input approximated: {r:?}"), "declines"); }
        return;
    }
    if v.fract() == 0.0 && v <= max_whole as f64 && v < u32::MAX as f64 {
        match r { Some(Number::Regular(x)) if x == v => {}, _ => fail(format!("integer within the limit not returned as plain number: {r:?}"), "integers") }
    }
    match r {
        None => {}
        Some(n @ Number::Regular(x)) => {
            if x != v { fail(format!("regular value {x} differs from input"), "exact"); }
            let _ = n;
        }
        Some(n @ Number::Fraction { whole, num, den, err }) => {
            let val = n.value();
            if (val - v).abs() > 4.0 * ulp(v) { fail(format!("value() {val:?} differs from the input by more than 4 ulp"), "exact"); }
            if err.abs() > accd * v * (1.0 + 1e-12) + 1e-300 { fail(format!("error {err:?} exceeds accuracy*value {}", accd * v), "err_bound"); }
            if whole > max_whole { fail(format!("whole {whole} above the limit"), "whole"); }
            let plain = num == 0 && den == 1;
            let frac = num > 0 && num < den && den <= max_den as u32 && DOC_DENOMS.contains(&den);
            if !(plain || frac) { fail(format!("fraction part {num}/{den} outside the documented shape"), "shape"); }
            // printed form denotes whole + num/den
            let s = n.to_string();
            let want = whole as f64 + if den != 0 { num as f64 / den as f64 } else { 0.0 };
            match denote(&s) { Some(d) if (d - want).abs() <= 1e-12 * want.abs().max(1.0) => {}, other => fail(format!("printed form {s:?} denotes {other:?}, fraction is {want}"), "display") }
            let zero = if val == 0.0 { 1 } else { 0 };
            ctx.case(format!("fracform {zero} {whole} {num} {den}"), s, true, input.clone());
        }
    }
}

/// `try_approx` twice on one number: the answer of the second call must be that of a fresh `new_approx` on the
/// current value (no dependence on how the number got its present form)
pub fn twice(ctx: &mut Ctx, v: f64, p1: (f32, u8, u32), p2: (f32, u8, u32)) {
    let input = format!("Regular({v:?}).try_approx{p1:?} then .try_approx{p2:?}");
    let r = guarded(|| {
        let mut n = Number::Regular(v);
        let b1 = n.try_approx(p1.0, p1.1, p1.2);
        let n1 = n;
        let b2 = n.try_approx(p2.0, p2.1, p2.2);
        let fresh = Number::new_approx(n1.value(), p2.0, p2.1, p2.2);
        (n1, b1, n, b2, fresh)
    });
    let (n1, b1, n2, b2, fresh) = match r { Ok(x) => x, Err(p) => { ctx.oracle_fail(input, format!("panic {p}"), panic_signature(&p)); return; } };
    let op = format!("tryapprox2 {} {} {} {} {} {} {}", bits(v), bits(p1.0 as f64), p1.1, p1.2, bits(p2.0 as f64), p2.1, p2.2);
    ctx.case(op, format!("{} {} {} {}", render(&Some(n1)), b1, render(&Some(n2)), b2), b1 || b2, input.clone());
    ctx.count(&format!("twice:{}{}", if b1 { "T" } else { "F" }, if b2 { "T" } else { "F" }));
    let want = match fresh { Some(f) => (f, true), None => (n1, false) };
    if render(&Some(want.0)) != render(&Some(n2)) || want.1 != b2 {
        ctx.oracle_fail(input, format!("second try_approx gave ({}, {b2}), a fresh new_approx on the same value gives ({}, {})", render(&Some(n2)), render(&Some(want.0)), want.1), "c12:history".into());
    }
}

pub fn run(ctx: &mut Ctx) {
    ctx.rule = "new_approx calls over a dense k/9600 grid, every table fraction ±1/±8 ulp and ±1e-4..1e-2, a log grid, random values, \
non-finite and non-positive values; max_den sampled from 1..=64, accuracies {0,.01,.05,.5,1}, whole limits {0,1,5,u32::MAX}; \
printing: the plain and the alternate (#) Display form of numbers (corner values, all magnitudes, powers of two and ten and their neighbours, k/1000, hand-made fractions over every print arm and error threshold, results of new_approx), values, ranges, scalable values, quantities with/without unit, grouped values/quantities, and std's Display for f64 itself (plain and with the + flag) compared with the model's exact shortest-round-trip printer; non-trivial = the call returned Some(_) (every printing case counts); distinct = distinct request lines".into();
    let mut rng = Rng::new(ctx.seed ^ 0xC12);
    let accs: [f32; 6] = [0.0, 0.01, 0.05, 0.1, 0.5, 1.0];
    let wholes: [u32; 5] = [0, 1, 5, 1000, u32::MAX];
    let table = ctx.model().one("fractable");
    let table_rat = ctx.model().one("fractable_rat");
    if table != table_rat { ctx.notes.push(format!("f64 table and exact table differ: {table} vs {table_rat}")); ctx.count("table_f64_differs_from_exact"); }
    let fracs: Vec<f64> = table.split(' ').filter_map(|e| { let (_, f) = e.split_once(':')?; let (n, d) = f.split_once('/')?; Some(n.parse::<f64>().ok()? / d.parse::<f64>().ok()?) }).collect();
    ctx.count_n("table_entries", fracs.len() as u64);

    let dens_all: Vec<u8> = (1..=64).collect();
    let pick_params = |rng: &mut Rng| (*rng.pick(&accs), *rng.pick(&dens_all), *rng.pick(&wholes));

    // corner inputs
    for &v in &[0.0, -0.0, -1.5, f64::NAN, f64::INFINITY, f64::NEG_INFINITY, f64::MIN_POSITIVE, 1e-320, 4294967295.0, 4294967294.5, 4294967295.5, 4294967296.0, 1e300, 0.99999999995, 1.00000000001, 0.5, 1.0, 2.0] {
        for &a in &accs { for &md in &[1u8, 2, 4, 16, 64] { for &mw in &wholes { one(ctx, v, a, md, mw); } } }
    }
    // dense grid
    let step = if ctx.thorough { 1 } else { 7 };
    let mut k = 1u64;
    while k <= 9600 * 6 {
        let v = k as f64 / 9600.0;
        let n = if ctx.thorough { 6 } else { 2 };
        for _ in 0..n { let (a, md, mw) = pick_params(&mut rng); one(ctx, v, a, md, mw); }
        k += step;
    }
    // table fractions and neighbours
    for w in [0u32, 1, 3, 7, 100] {
        for &f in &fracs {
            let base = w as f64 + f;
            let mut vs = vec![base];
            let mut up = base; let mut dn = base;
            for i in 0..8 { up = f64::from_bits(up.to_bits() + 1); dn = f64::from_bits(dn.to_bits() - 1); if i == 0 || i == 7 { vs.push(up); vs.push(dn); } }
            for d in [1e-4, 1e-3, 1e-2, 0.00005] { vs.push(base + d); vs.push(base - d); }
            for v in vs {
                let n = if ctx.thorough { 12 } else { 3 };
                for _ in 0..n { let (a, md, mw) = pick_params(&mut rng); one(ctx, v, a, md, mw); }
                one(ctx, v, 0.05, 16, u32::MAX);
            }
        }
    }
    // histories: two try_approx calls with different parameters on one number
    let n_hist = if ctx.thorough { 400_000 } else { 6_000 };
    for i in 0..n_hist {
        let v = match i % 3 { 0 => rng.unit_f64() * 6.0, 1 => (rng.below(50) as f64) + *rng.pick(&fracs) + (rng.unit_f64() - 0.5) * 10f64.powi(-(1 + rng.below(6) as i32)), _ => 10f64.powf(rng.unit_f64() * 12.0 - 3.0) };
        let p1 = pick_params(&mut rng); let p2 = pick_params(&mut rng);
        twice(ctx, v, p1, p2);
    }
    // the approximation as its callers request it: `fit` / `try_fraction` of quantities (numbers and ranges, also ones that
    // change unit) under the per-unit limits of two converters; the model takes the limits from the units files by the
    // documented layering (unit > quantity > system > all), independently of the code
    {
        use crate::props::c09::{alt_world, bundled_world, layered_world, quantity_case, random_quantity, QOp};
        use cooklang::quantity::{Quantity, Value};
        let n_q = if ctx.thorough { 60_000 } else { 1_500 };
        let lay = layered_world();
        if lay.is_none() { ctx.notes.push("corpus/C12/frac_layer.toml is missing or the stacked converter is rejected by ConverterBuilder: layered fraction settings not exercised".into()); }
        for (wi, w) in [Some(bundled_world()), alt_world(), lay].into_iter().flatten().enumerate() {
            if w.tag == "l" && ctx.model().one("cv l wf") != "true" { ctx.notes.push("the description generated for units.toml + corpus/C12/frac_layer.toml is not well formed (model refuses to run)".into()); }
            let mut r = rng.fork(100 + wi as u64);
            for (v, u) in [((24.0, 30.0), "tsp"), ((1.5, 2.5), "kg"), ((0.25, 0.75), "cup"), ((7.5, 7.5), "tsp"), ((0.3125, 0.3125), "tsp"), ((3.5, 4.25), "kg"),
                            ((2.55, 2.55), "lb"), ((20.5, 20.5), "lb"), ((10.5, 10.5), "oz"), ((0.26, 0.26), "tbsp"), ((3.5, 3.5), "kg"), ((2.5, 2.5), "kg"), ((0.3, 0.3), "ft"), ((12.5, 12.5), "cup"), ((0.503, 0.503), "cup"), ((0.252, 0.252), "cup"), ((2.4, 2.4), "lb"), ((0.55, 0.55), "cup"), ((1.34, 1.34), "lb")] {
                if w.conv.find_unit(u).is_none() { continue; }
                let val = if v.0 == v.1 { Value::Number(Number::Regular(v.0)) } else { Value::Range { start: Number::Regular(v.0), end: Number::Regular(v.1) } };
                let q = Quantity::new(val, Some(u.to_string()));
                quantity_case(ctx, &w, &q, QOp::Fit, None); quantity_case(ctx, &w, &q, QOp::TryFraction, None);
            }
            for _ in 0..n_q {
                let q = random_quantity(&mut r, &w);
                quantity_case(ctx, &w, &q, if r.chance(1, 2) { QOp::Fit } else { QOp::TryFraction }, None);
            }
            ctx.count("quantities-through-fit/try_fraction");
        }
    }
    // the printing code (Display for Number / Value / Quantity / groups, std's Display for f64) against the model
    crate::props::c12_display::run(ctx);
    // log grid and random
    let n_rand = if ctx.thorough { 3_000_000 } else { 40_000 };
    for i in 0..n_rand {
        let v = match i % 4 {
            0 => 10f64.powf(rng.unit_f64() * 24.0 - 12.0),
            1 => rng.unit_f64() * 20.0,
            2 => (rng.below(2000) as f64) + *rng.pick(&fracs) + (rng.unit_f64() - 0.5) * 10f64.powi(-(rng.below(12) as i32)),
            _ => f64::from_bits(rng.next() >> 1),
        };
        let (a, md, mw) = pick_params(&mut rng);
        let a = if i % 5 == 0 { rng.unit_f64() as f32 } else { a };
        one(ctx, v, a, md, mw);
    }
}
