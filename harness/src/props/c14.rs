//! C14 Metadata-only parsing agrees with full parsing.
use crate::ctx::Ctx;
use crate::gen;
use crate::render::*;
use crate::rng::Rng;
use crate::util::{enc_text, guarded, panic_signature};
use cooklang::{Converter, CooklangParser, Extensions};

fn meta_gen(rng: &mut Rng) -> String {
    // soups enriched with metadata-looking lines
    let mut s = String::new();
    let n = 1 + rng.below(6);
    for i in 0..n {
        if i > 0 { s.push_str(rng.pick_str(&["\n", "\n\n", "\r\n", " \n", "\\\n", "\n-- c\n", "[- \n -]\n"])); }
        match rng.below(8) {
            0 | 1 | 2 => s.push_str(&format!("{}>>{}{}{}{}", rng.pick_str(&["", "", " "]), rng.pick_str(&[" ", "", "\t"]), rng.pick_str(&["key", "servings", "time", "[mode]", "[x]", "a b", "", "tags", "é"]), rng.pick_str(&[":", ": ", " : ", "", "::"]), rng.pick_str(&["value", "2", "1h", "steps", "", "a, b", "x: y", "[- c -]v", "v -- c"]))),
            3 => s.push_str(&gen::soup(rng, 6)),
            4 => s.push_str(&gen::step(rng)),
            5 => s.push_str("= sec"),
            6 => s.push_str(rng.pick_str(&["---", "---\na: 1\n---", "> text", ">>"])),
            _ => s.push_str(&gen::block(rng)),
        }
    }
    s
}

pub fn one(ctx: &mut Ctx, input: &str, ext_bits: u32, conv: u8) {
    let ext = Extensions::from_bits_retain(ext_bits);
    let parser = CooklangParser::new(ext, if conv == 0 { Converter::empty() } else { Converter::bundled() });
    let desc = format!("ext={ext_bits} conv={conv} input={input:?}");
    let meta = guarded(|| parser.parse_metadata(input));
    let full = guarded(|| parser.parse(input));
    let fm = crate::props::c06::has_front_matter(input);
    match &meta {
        Err(p) => { ctx.case(format!("metaonly {ext_bits} {conv} {}", enc_text(input)), "PANIC".into(), true, desc.clone()); ctx.oracle_fail(desc.clone(), format!("parse_metadata panicked: {p}"), panic_signature(p)); }
        Ok(m) => {
            let reply = match m.output() {
                None => "NOOUT".to_string(),
                Some(_) if fm => "OUT fm".to_string(),
                Some(md) => format!("OUT meta=[{}]", md.map.iter().map(|(k, v)| format!("{}={}", r_str(k.as_str().unwrap_or("?")), r_str(v.as_str().unwrap_or("?")))).collect::<Vec<_>>().join(" ")),
            };
            let nontrivial = m.output().map(|md| !md.map.is_empty()).unwrap_or(false);
            ctx.case(format!("metaonly {ext_bits} {conv} {}", enc_text(input)), reply, nontrivial, desc.clone());
        }
    }
    // (without front matter: the `>>` arm under a validator, sampled)
    { let h = crate::util::hash64(input); if fm || (input.contains(">>") && h % 5 == 0) { crate::fm::fm_case(ctx, input, ext_bits, conv, if fm { (h % 4) as u8 } else { 1 + (h / 5 % 3) as u8 }); } }
    if let (Ok(m), Ok(f)) = (&meta, &full) {
        match (m.output(), f.output()) {
            (Some(a), Some(b)) => {
                ctx.count("both-have-output");
                if a.map != b.metadata.map { ctx.oracle_fail(desc, format!("metadata-only map {:?} differs from full parse map {:?}", a.map, b.metadata.map), "c14:differ".into()); }
            }
            (Some(_), None) => ctx.count("only-metadata-parse-has-output"),
            (None, Some(_)) => ctx.count("only-full-parse-has-output"),
            _ => ctx.count("neither-has-output"),
        }
    }
}

pub fn run(ctx: &mut Ctx) {
    ctx.rule = "inputs: corpus, exhaustive short token strings, metadata-enriched soups (>> lines with/without colon, config keys, std keys, escapes before newlines, comments spanning lines, fences), structured recipes, well-formed recipes; all 256 extension patterns, both converters; oracle: when parse_metadata and parse both have output their metadata maps are equal; the metadata-only result is also compared with the model. non-trivial = metadata-only output with at least one entry".into();
    let mut rng = Rng::new(ctx.seed ^ 0xC14);
    let mut n = 0usize;
    crate::props::c04::inputs(ctx, 0xC14, &mut |ctx, s, e| { n += 1; one(ctx, s, e, (n % 2) as u8); });
    let m = if ctx.thorough { 400_000 } else { 12_000 };
    for i in 0..m { let s = meta_gen(&mut rng); one(ctx, &s, gen::ext_pattern(i % 256), (i % 2) as u8); }
    let w = if ctx.thorough { 20_000 } else { 500 };
    crate::fm::family(ctx, 0xC14);
    for i in 0..w { let r = crate::wf::generate(&mut rng, i % 2 == 1); let t = crate::wf::spell(&r, &crate::wf::Style::plain()); one(ctx, &t, if i % 2 == 1 { 0xEEA } else { 0 }, (i % 2) as u8); }
}
