//! C01 Printing a recipe as Cooklang and parsing it returns that recipe (also the source of well-formed inputs).
use crate::ctx::Ctx;
use crate::props::c06::{has_front_matter, recipe_case};
use crate::render::*;
use crate::rng::Rng;
use crate::wf::{self, Style, WfRecipe};

pub const EXT_ALL: u32 = 0xEEA;

/// parse one spelling with the parser that corresponds to the recipe's dialect; returns (impl rendering, expected)
pub fn check_spelling(ctx: &mut Ctx, r: &WfRecipe, text: &str, what: &str) {
    let (ext, conv) = if r.extended { (EXT_ALL, 1u8) } else { (0u32, 0u8) };
    let Some(res) = recipe_case(ctx, text, ext, conv) else { return };
    // the parser's event stream of the spelling (every span, fragment, value and modifier) is compared with the model too:
    // the recipe alone does not show, for instance, where a component ends
    if let Ok(evs) = crate::util::guarded(|| cooklang::parser::PullParser::new(text, cooklang::Extensions::from_bits_retain(ext)).collect::<Vec<_>>()) {
        ctx.case(format!("events {ext} {}", crate::util::enc_text(text)), r_events(&evs), evs.len() > 2, format!("{what} ext={ext} input={text:?}"));
    }
    let desc = format!("{what} ext={ext} conv={conv} input={text:?}");
    let fm = has_front_matter(text);
    let got = match res.output() { Some(rec) => format!("OUT {}", r_recipe(rec, !fm)), None => "NOOUT".to_string() };
    let want = wf::expected(r);
    if got != want {
        let pos = got.bytes().zip(want.bytes()).position(|(a, b)| a != b).unwrap_or(got.len().min(want.len()));
        let field = ["meta=[", "inline=[", "timers=[", "cookware=[", "ingredients=[", "sections=["].iter().find(|f| got.find(*f).map(|p| p <= pos).unwrap_or(false)).copied().unwrap_or("?");
        ctx.oracle_fail(desc.clone(), format!("parsed recipe differs from the intended one (first difference at byte {pos})\n got: {got}\nwant: {want}"), format!("c01:roundtrip:{field}"));
    }
    for d in res.report().iter() {
        let k = diag_kind(d);
        if k != "meta-deprecated" {
            ctx.oracle_fail(desc.clone(), format!("well-formed recipe produced diagnostic {} ({})", r_diag_full(d), d.message), format!("c01:diag:{k}"));
        }
    }
}

pub fn styles(rng: &mut Rng) -> Vec<Style> {
    let mut v = vec![Style::plain()];
    v.push(Style { seed: rng.next(), spaces: true, comments: false, wrap: false, crlf: false, unit_space: false });
    v.push(Style { seed: rng.next(), spaces: false, comments: true, wrap: false, crlf: false, unit_space: false });
    v.push(Style { seed: rng.next(), spaces: true, comments: true, wrap: true, crlf: rng.chance(1, 2), unit_space: rng.chance(1, 2) });
    v
}

pub fn run(ctx: &mut Ctx) {
    ctx.rule = "random abstract recipes (metadata, sections, steps, text paragraphs, ingredients/cookware/timers with numeric/fraction/range/text values, units, locks, modifiers, aliases, notes, references, intermediate references, components-mode blocks, text-mode / steps-mode / duplicate-reference regions between mode switches; valid by construction) x 4 spelling styles (plain; spacing; comments; spacing+comments+line wrapping+CRLF+unit without %), canonical parser for canonical recipes and extended parser for extended ones; oracle: parsed recipe == intended recipe computed from the abstract recipe, no diagnostics except the >> deprecation; every spelling also goes through the model. distinct = distinct request lines".into();
    let mut rng = Rng::new(ctx.seed ^ 0xC01);
    let n = if ctx.thorough { 60_000 } else { 1_500 };
    for i in 0..n {
        let extended = i % 2 == 1;
        let r = wf::generate(&mut rng, extended);
        ctx.count(if extended { "recipe:extended" } else { "recipe:canonical" });
        if r.blocks.iter().any(|b| matches!(b, wf::Block::Components(_))) { ctx.count("recipe:with-components-mode-block"); }
        for b in &r.blocks {
            if let wf::Block::Switch(k, v) = b {
                if v == "text" { ctx.count("recipe:text-mode-region"); }
                if v == "steps" { ctx.count("recipe:steps-mode-region"); }
                if k == "duplicate" && v.starts_with("ref") { ctx.count("recipe:duplicate-reference-region"); }
            }
        }
        for (k, st) in styles(&mut rng).iter().enumerate() {
            let text = wf::spell(&r, st);
            check_spelling(ctx, &r, &text, &format!("style#{k}"));
        }
        // a few recipes behind one VERY long token (a comment, or a comment-only line, of more than 2^16 bytes): offsets and
        // lengths kept in narrow integers would wrap there
        if i < 4 && r.front.is_none() {
            let plain = wf::spell(&r, &Style::plain());
            let long = match i % 2 { 0 => format!("[- {} -]\n", "x".repeat(70_000)), _ => format!("-- {}\n\n", "é".repeat(40_000)) };
            check_spelling(ctx, &r, &format!("{long}{plain}"), "behind-a-very-long-token");
            ctx.count("recipe:behind-a-very-long-token");
        }
    }
}
