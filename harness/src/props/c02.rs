//! C02 Core-syntax recipes parse identically under every extension subset.
use crate::ctx::Ctx;
use crate::gen::ext_pattern;
use crate::props::c06::recipe_case;
use crate::render::*;
use crate::rng::Rng;
use crate::wf::{self, Block, Item, Kind, Style};

const FLAGS: [(u32, &str); 8] = [(1 << 1, "MODIFIERS"), (1 << 3, "ALIAS"), (1 << 5, "ADVANCED_UNITS"), (1 << 6, "MODES"), (1 << 7, "INLINE_QUANTITIES"), (1 << 9, "RANGE_VALUES"), (1 << 10, "TIMER_REQUIRES_TIME"), (1 << 11, "INTERMEDIATE(bit 11)")];

/// a canonical well-formed recipe that avoids every construct the extensions reinterpret
fn core_only(rng: &mut Rng, with_timers: bool) -> wf::WfRecipe {
    let mut r = wf::generate(rng, false);
    for b in &mut r.blocks {
        if let Block::Step(items) = b {
            for it in items.iter_mut() {
                if let Item::Comp(c) = it {
                    // a text value that starts with a number is read alike by every extension set only when a `%unit` follows
                    // (without it ADVANCED_UNITS documents `{1/2 cup}` as number + unit): such values get a unit here
                    if let Some(q) = &mut c.qty { if q.unit.is_none() && matches!(&q.val, wf::Val::Text(t) if t.starts_with(|ch: char| ch.is_ascii_digit())) { q.unit = Some("g".into()); } }
                    if c.kind == Kind::Timer {
                        if with_timers {
                            // a timer with a time quantity in a unit the bundled converter knows
                            if c.qty.is_none() { c.qty = Some(wf::Qty { val: wf::Val::Num(wf::Num::Regular(5.0, "5".into())), unit: Some("min".into()), lock: false }); }
                            if let Some(q) = &mut c.qty { q.unit = Some("min".into()); if matches!(q.val, wf::Val::Text(_)) { q.val = wf::Val::Num(wf::Num::Regular(5.0, "5".into())); } }
                        } else { *it = Item::Text("wait".into()); }
                    }
                }
            }
            // merge adjacent text items created by the replacement
            let mut merged: Vec<Item> = Vec::new();
            for it in items.drain(..) {
                let it = if let Item::SoftBreak = it { Item::Text(" ".into()) } else { it };   // a removed timer may leave a break next to text
                match (merged.last_mut(), it) { (Some(Item::Text(a)), Item::Text(b)) => a.push_str(&b), (_, it) => merged.push(it) }
            }
            *items = merged;
        }
    }
    // numbers in step text that no extension reinterprets: not followed by a unit the converter knows (also after a
    // no-break / narrow / ideographic space, which the inline-quantity scan has to step over)
    if rng.chance(1, 2) {
        let extra = rng.pick_str(&[" Use 2\u{00A0}œufs now.", " Beat 3 eggs.", " Step 2: rest.", " Fold 3\u{3000}times.", " Add 1\u{202F}000 crumbs.", " Turn 2 x.", " −18 is cold.", " Level 5.", " Divide the dough in 2. In a bowl, rest.", " Wait 5 Min. then go.", " Add 3 G of love.", " Use 2 Cups? No: 2 pans.", " Fry the onion in @oil|butter until golden.", " Cover the #pot|pan and wait."]);
        for b in r.blocks.iter_mut().rev() { if let Block::Step(items) = b { match items.last_mut() { Some(Item::Text(t)) => t.push_str(extra), _ => items.push(Item::Text(extra.to_string())) } break; } }
    }
    // with a front matter a `>>` line is ordinary step text unless its key is `[...]` on both sides (and MODES is on)
    if r.front.is_some() && rng.chance(1, 2) {
        r.blocks.push(Block::Step(vec![Item::Text(rng.pick_str(&[">> see note [1]: stir well", ">> [tip: keep warm", ">> note]: done", ">> plain: text"]).to_string())]));
    }
    r
}

pub fn run(ctx: &mut Ctx) {
    ctx.rule = "main clause: canonical well-formed recipes that avoid the reinterpreted constructs (no modifier char after the marker, no | in names, units always with %, no ranges, no bracketed keys, no digits in step text, timers always with a numeric time quantity in a known unit when the bundled converter is used and no timers with the empty converter) are parsed under all 256 raw extension patterns with a fixed converter: all results must be identical and error free; converse clause: for each flag an input using only that flag's syntax is parsed under every pattern lacking the flag and must read as core text. every parse also goes through the model. distinct = distinct request lines".into();
    let mut rng = Rng::new(ctx.seed ^ 0xC02);
    let n = if ctx.thorough { 4_000 } else { 60 };
    for i in 0..n {
        let conv = (i % 2) as u8;
        let r = core_only(&mut rng, conv == 1);
        let st = if i % 3 == 0 { Style::plain() } else { Style { seed: rng.next(), spaces: true, comments: i % 3 == 2, wrap: false, crlf: false, unit_space: false } };
        let mut text = wf::spell(&r, &st);
        // with a front matter, a `>>` line directly between two step lines (no blank line) is a block of its own under every extension set
        if r.front.is_some() && rng.chance(1, 2) {
            text.push_str(rng.pick_str(&["\n\nStir well.\n>> plain: text\nServe now.\n", "\n\n>> first: line\nThen rest.\n", "\n\nRest it.\n>> last: line\n", "\n\nStir.\n>> a: b\n>> c: d\nServe.\n"]));
            ctx.count("core:front-matter-and->>-line-inside-a-paragraph");
        }
        let mut first: Option<String> = None;
        for k in 0..256 {
            let ext = ext_pattern(k);
            let Some(res) = recipe_case(ctx, &text, ext, conv) else { continue };
            let img = format!("{}|valid={}", res.output().map(|rec| r_recipe(rec, true)).unwrap_or_else(|| "NOOUT".into()), res.is_valid());
            let desc = format!("core recipe under ext={ext} conv={conv} input={text:?}");
            if res.report().iter().any(|d| d.is_error()) { ctx.oracle_fail(desc.clone(), format!("errors under ext={ext}: {}", res.report().iter().map(r_diag_full).collect::<Vec<_>>().join(" ")), format!("c02:error:{}", res.report().iter().find(|d| d.is_error()).map(|d| diag_kind(d)).unwrap_or_default())); }
            match &first { None => first = Some(img), Some(f) => if *f != img { ctx.oracle_fail(desc, format!("result differs from the one without extensions\n ext=0: {f}\n ext={ext}: {img}"), "c02:differs".into()); } }
        }
        ctx.count("core-recipe-x256");
    }
    // converse clause: (flag bit, input, conv, predicate on the rendering)
    let cases: Vec<(u32, &str, u8, Box<dyn Fn(&str) -> bool>)> = vec![
        (1 << 3, "Add @sea|salt{1%g}.", 0, Box::new(|s| s.contains(&format!("I({};-;", r_cps("sea|salt"))))),
        (1 << 3, "Use #big|pot{} and ~rest|nap{5%min}.", 1, Box::new(|s| s.contains(&format!("C({};-;", r_cps("big|pot"))) && s.contains(&format!("M({};", r_cps("rest|nap"))) && !s.contains("diags=[E"))),
        (1 << 9, "Add @salt{2-3%g}.", 0, Box::new(|s| s.contains(&format!("TXT({})", r_cps("2-3"))))),
        (1 << 9, "Add @salt{2-3}.", 1, Box::new(|s| s.contains(&format!("TXT({})%-", r_cps("2-3"))))),
        (1 << 9, "Add @water{2-3 l} and @milk{1/2-1 cup}.", 1, Box::new(|s| !s.contains("RNG("))),
        (1 << 9, "Add @water{ 2 - 3 %l} and #pan{1-2}.", 0, Box::new(|s| !s.contains("RNG("))),
        (1 << 5, "Add @salt{1 kg}.", 1, Box::new(|s| s.contains(&format!("TXT({})%-", r_cps("1 kg"))))),
        (1 << 5, "Add @salt{1/2 cup} and @oil{= 2 tbsp} and #pan{2 big}.", 1, Box::new(|s| s.contains(&format!("TXT({})%-", r_cps("1/2 cup"))) && s.contains(&format!("TXT({})%-", r_cps("2 tbsp"))))),
        (1 << 5, "Cook ~{10%kg} or ~{x%min}.", 1, Box::new(|s| !s.contains("diags=[E"))),
        (1 << 6, ">> [mode]: steps\n\nAdd @salt{}.", 0, Box::new(|s| s.contains(&format!("meta=[{}={}]", r_cps("[mode]"), r_cps("steps"))))),
        (1 << 6, ">> [duplicate]: ref\n\nAdd @salt{} and @salt{}.", 0, Box::new(|s| s.contains(&format!("{}={}", r_cps("[duplicate]"), r_cps("ref"))) && s.contains("def[]+>-;0) I("))),
        (1 << 6, ">> [define]: nonsense\n\nAdd @salt{}.", 0, Box::new(|s| !s.contains("diags=[E") && s.contains(&r_cps("[define]")))),
        (1 << 7, "Add 2 cups of water.", 1, Box::new(|s| s.contains("inline=[]") && s.contains(&format!("t:{}", r_cps("Add 2 cups of water."))))),
        (1 << 7, "Bake at 180 °C for 10min or -5 C.", 1, Box::new(|s| s.contains("inline=[]"))),
        (1 << 10, "Wait ~rest and go.", 0, Box::new(|s| s.contains(&format!("M({};-)", r_cps("rest"))) && !s.contains("diags=[E"))),
        (1 << 10, "Wait ~long rest{} and go.", 1, Box::new(|s| s.contains(&format!("M({};-)", r_cps("long rest"))) && !s.contains("diags=[E"))),
        (1 << 1, "Add @&salt{}.", 0, Box::new(|s| s.contains(&format!("I({};", r_cps("&salt"))) && !s.contains("diags=[E"))),
        (1 << 1, "Add @?salt{} and #-pan{} and @+@x{}.", 0, Box::new(|s| s.contains(&format!("I({};", r_cps("?salt"))) && s.contains(&format!("C({};", r_cps("-pan"))) && !s.contains("diags=[E"))),
        // INTERMEDIATE_PREPARATIONS is a composite flag (bit 11 + COMPONENT_MODIFIERS): with bit 11 off, `&(1)` is the reference
        // modifier followed by a name that starts with a parenthesis (or, without modifiers, all of it is the name)
        (1 << 11, "Mix @(1)dough{500%g}.\n\nBake @&(1)dough{}.", 0, Box::new(|s| !s.contains(">step") && !s.contains(">section") && !s.contains("diags=[E"))),
        (1 << 11, "Mix.\n\n= B\n\nBake @&(~1)dough{} and @&(=1)x{} and @&(=~1)y{}.", 1, Box::new(|s| !s.contains(">step") && !s.contains(">section"))),
    ];
    // every converse input is also read with core components (with and without quantities) in front of it in the same step:
    // what an earlier component of the step did must not change how the disabled syntax is read
    // (each prefix ends with a component, so the text items of the case itself are unchanged; no timers: with the empty
    // converter a timer unit is unknown)
    const PREFIXES: [&str; 5] = ["", "Put in #bowl{2}", "Take @milk{1%l} and #pan{}", "With @egg{2}", "Use #big pot{1} or #lid{}"];
    let cases: Vec<(u32, String, u8, &Box<dyn Fn(&str) -> bool>)> = cases.iter().flat_map(|(flag, input, conv, pred)| {
        PREFIXES.iter().filter(move |p| p.is_empty() || !input.starts_with(">>")).map(move |p| (*flag, format!("{p}{input}"), *conv, pred))
    }).collect();
    for (flag, input, conv, pred) in &cases {
        let input: &str = input;
        for k in 0..256 {
            let ext = ext_pattern(k);
            if ext & flag != 0 { continue; }
            // INTERMEDIATE needs MODIFIERS; for the MODIFIERS case bit 11 alone does not enable modifiers
            let Some(res) = recipe_case(ctx, input, ext, *conv) else { continue };
            let fm = false;
            let img = r_analysis(&res, fm);
            ctx.count(&format!("converse:{}", FLAGS.iter().find(|f| f.0 == *flag).map(|f| f.1).unwrap_or("?")));
            if !pred(&img) { ctx.oracle_fail(format!("ext={ext} (flag {flag} off) conv={conv} input={input:?}"), format!("with the extension disabled the syntax is not read as core text: {img}"), format!("c02:converse:{flag}")); }
            // the metadata-only entry point of the same parser has to read a bracketed key the same way
            if *flag == 1 << 6 {
                let parser = cooklang::CooklangParser::new(cooklang::Extensions::from_bits_retain(ext), if *conv == 0 { cooklang::Converter::empty() } else { cooklang::Converter::bundled() });
                if let Ok(m) = crate::util::guarded(|| parser.parse_metadata(input)) {
                    let full: Vec<String> = res.output().map(|r| r.metadata.map.iter().map(|(k, v)| format!("{k:?}={v:?}")).collect()).unwrap_or_default();
                    let only: Vec<String> = m.output().map(|md| md.map.iter().map(|(k, v)| format!("{k:?}={v:?}")).collect()).unwrap_or_default();
                    if m.report().iter().any(|d| d.is_error()) || full != only {
                        ctx.oracle_fail(format!("ext={ext} (MODES off) conv={conv} input={input:?} through parse_metadata"), format!("parse_metadata reads the bracketed key differently from parse: {only:?} vs {full:?}; errors: {}", m.report().iter().filter(|d| d.is_error()).map(r_diag_full).collect::<Vec<_>>().join(" ")), "c02:converse:parse_metadata".into());
                    }
                }
            }
        }
    }
}
