//! probe
use crate::ctx::Ctx;
use cooklang_bindings::model::*;
use uniffi::FfiConverter;
pub fn run(_ctx: &mut Ctx) {
    let r = cooklang_bindings::parse_recipe("a @b{1%g}(x) and #c{2} ~{3%min} ~t{1%h}\n\n> note\n\n= S\n\n@z{a few}".into(), 2.0);
    println!("{r:?}");
    for i in r.ingredients {
        let mut buf = Vec::new();
        <Ingredient as FfiConverter<()>>::write(i, &mut buf);
        println!("{buf:?}");
        let back = <Ingredient as FfiConverter<()>>::try_read(&mut &buf[..]).unwrap();
        println!("{back:?}");
    }
}
