//! C19 The FFI view mirrors the core recipe and combines amounts faithfully.
//!
//! The bindings crate is linked from a scratch copy (translators/prep_bindings.py).  `Amount` has
//! crate-private fields: values are built and read through the crate's own uniffi (de)serialisation
//! (`FfiConverter::{write, try_read}`), i.e. the way a foreign caller passes them — no hook in /repo.
use crate::ctx::Ctx;
use crate::recipe_sexp;
use crate::rng::Rng;
use crate::util::{bits, enc_text, guarded, panic_signature};
use cooklang::model::{Content, Item as CoreItem};
use cooklang::quantity::Value as CoreValue;
use cooklang::{CooklangParser, ScaledRecipe};
use cooklang_bindings::model::{
    Amount, Block, Component, Cookware, CooklangRecipe, GroupedQuantity, GroupedQuantityKey, Ingredient, IngredientList, Item,
    QuantityType, Timer, Value,
};
use cooklang_bindings::{combine_ingredients, combine_ingredients_selected, deref_component, deref_cookware, deref_ingredient, deref_timer, parse_aisle_config, parse_metadata};
use std::collections::{BTreeMap, BTreeSet, HashMap};
use uniffi::FfiConverter;

// ---------------------------------------------------------------- view values through the uniffi wire format

#[derive(Clone, Debug, PartialEq)]
enum FV { Number(f64), Range(f64, f64), Text(String), Empty }
type Amt = Option<(FV, Option<String>)>;

fn put_str(b: &mut Vec<u8>, s: &str) { b.extend((s.len() as i32).to_be_bytes()); b.extend(s.as_bytes()); }
fn put_opt_str(b: &mut Vec<u8>, s: &Option<String>) { match s { None => b.push(0), Some(s) => { b.push(1); put_str(b, s); } } }
fn put_fv(b: &mut Vec<u8>, v: &FV) {
    match v {
        FV::Number(x) => { b.extend(1i32.to_be_bytes()); b.extend(x.to_bits().to_be_bytes()); }
        FV::Range(s, e) => { b.extend(2i32.to_be_bytes()); b.extend(s.to_bits().to_be_bytes()); b.extend(e.to_bits().to_be_bytes()); }
        FV::Text(t) => { b.extend(3i32.to_be_bytes()); put_str(b, t); }
        FV::Empty => b.extend(4i32.to_be_bytes()),
    }
}
fn mk_ingredient(name: &str, amt: &Amt, desc: &Option<String>) -> Ingredient {
    let mut b = Vec::new();
    put_str(&mut b, name);
    match amt { None => b.push(0), Some((v, u)) => { b.push(1); put_fv(&mut b, v); put_opt_str(&mut b, u); } }
    put_opt_str(&mut b, desc);
    let mut sl = &b[..];
    let i = <Ingredient as FfiConverter<()>>::try_read(&mut sl).expect("uniffi read of an Ingredient");
    assert!(sl.is_empty());
    i
}

struct Rd<'a>(&'a [u8]);
impl Rd<'_> {
    fn take(&mut self, n: usize) -> &[u8] { let (a, b) = self.0.split_at(n); self.0 = b; a }
    fn i32(&mut self) -> i32 { i32::from_be_bytes(self.take(4).try_into().unwrap()) }
    fn f64(&mut self) -> f64 { f64::from_bits(u64::from_be_bytes(self.take(8).try_into().unwrap())) }
    fn string(&mut self) -> String { let n = self.i32() as usize; String::from_utf8(self.take(n).to_vec()).unwrap() }
    fn opt_string(&mut self) -> Option<String> { if self.take(1)[0] == 0 { None } else { Some(self.string()) } }
}
fn amount_parts(a: &Amount) -> (FV, Option<String>) {
    let mut b = Vec::new();
    <Amount as FfiConverter<()>>::write(a.clone(), &mut b);
    let mut r = Rd(&b);
    let v = match r.i32() { 1 => FV::Number(r.f64()), 2 => { let s = r.f64(); FV::Range(s, r.f64()) } 3 => FV::Text(r.string()), 4 => FV::Empty, k => panic!("unknown Value variant {k}") };
    let u = r.opt_string();
    assert!(r.0.is_empty());
    (v, u)
}
fn fv_of(v: &Value) -> FV {
    match v { Value::Number { value } => FV::Number(*value), Value::Range { start, end } => FV::Range(*start, *end), Value::Text { value } => FV::Text(value.clone()), Value::Empty => FV::Empty }
}

// ---------------------------------------------------------------- canonical rendering (as lean/CookModel/Driver/Ffi.lean)

fn r_float(x: f64) -> String { if x.is_nan() { "nan".into() } else { bits(x) } }
fn r_opt_text(o: &Option<String>) -> String { match o { None => "none".into(), Some(t) => format!("some:{}", enc_text(t)) } }
fn r_fv(v: &FV) -> String {
    match v { FV::Number(x) => format!("N:{}", r_float(*x)), FV::Range(s, e) => format!("R:{}:{}", r_float(*s), r_float(*e)), FV::Text(t) => format!("T:{}", enc_text(t)), FV::Empty => "E".into() }
}
fn r_amount(a: &Option<Amount>) -> String {
    match a { None => "none".into(), Some(a) => { let (v, u) = amount_parts(a); format!("(amt {} {})", r_fv(&v), r_opt_text(&u)) } }
}
fn r_ingredient(i: &Ingredient) -> String { format!("(ing {} {} {})", enc_text(&i.name), r_amount(&i.amount), r_opt_text(&i.descriptor)) }
fn r_cookware(c: &Cookware) -> String { format!("(cw {} {})", enc_text(&c.name), r_amount(&c.amount)) }
fn r_timer(t: &Timer) -> String { format!("(tm {} {})", r_opt_text(&t.name), r_amount(&t.amount)) }
fn r_idx(l: &[u32]) -> String { format!("[{}]", l.iter().map(|i| i.to_string()).collect::<Vec<_>>().join(",")) }
fn r_item(i: &Item) -> String {
    match i { Item::Text { value } => format!("(t {})", enc_text(value)), Item::IngredientRef { index } => format!("(i {index})"), Item::CookwareRef { index } => format!("(c {index})"), Item::TimerRef { index } => format!("(m {index})") }
}
fn r_block(b: &Block) -> String {
    match b {
        Block::StepBlock(s) => format!("(step ({}) {} {} {})", s.items.iter().map(r_item).collect::<Vec<_>>().join(" "), r_idx(&s.ingredient_refs), r_idx(&s.cookware_refs), r_idx(&s.timer_refs)),
        Block::NoteBlock(n) => format!("(note {})", enc_text(&n.text)),
    }
}
fn r_component(c: &Component) -> String {
    match c { Component::IngredientComponent(i) => r_ingredient(i), Component::CookwareComponent(c) => r_cookware(c), Component::TimerComponent(t) => r_timer(t), Component::TextComponent(t) => format!("(t {})", enc_text(t)) }
}
fn r_guard<T>(r: Result<T, String>, f: impl Fn(&T) -> String) -> String { match r { Ok(x) => f(&x), Err(_) => "panic:unwrap".into() } }
fn r_view(v: &CooklangRecipe) -> String {
    let secs: Vec<String> = v.sections.iter().map(|s| format!("(sec {} ({}) {} {} {})", r_opt_text(&s.title),
        s.blocks.iter().map(r_block).collect::<Vec<_>>().join(" "), r_idx(&s.ingredient_refs), r_idx(&s.cookware_refs), r_idx(&s.timer_refs))).collect();
    let mut derefs = Vec::new();
    for s in &v.sections { for b in &s.blocks { if let Block::StepBlock(st) = b {
        let mut d = Vec::new();
        for it in &st.items { d.push(r_guard(guarded(|| deref_component(v, it.clone())), r_component)); }
        for &i in &st.ingredient_refs { d.push(r_guard(guarded(|| deref_ingredient(v, i)), r_ingredient)); }
        for &i in &st.cookware_refs { d.push(r_guard(guarded(|| deref_cookware(v, i)), r_cookware)); }
        for &i in &st.timer_refs { d.push(r_guard(guarded(|| deref_timer(v, i)), r_timer)); }
        derefs.push(d.join(" "));
    } } }
    format!("(view ({}) ({}) ({}) ({}) (deref {}))", secs.join(" "), v.ingredients.iter().map(r_ingredient).collect::<Vec<_>>().join(" "),
        v.cookware.iter().map(r_cookware).collect::<Vec<_>>().join(" "), v.timers.iter().map(r_timer).collect::<Vec<_>>().join(" "), derefs.join(" | "))
}

fn kind_idx(k: &QuantityType) -> usize { match k { QuantityType::Number => 0, QuantityType::Range => 1, QuantityType::Text => 2, QuantityType::Empty => 3 } }
const KIND_NAMES: [&str; 4] = ["number", "range", "text", "empty"];
type Canon = BTreeMap<String, BTreeMap<(String, usize), FV>>;
fn canon(l: &IngredientList) -> Canon {
    l.iter().map(|(n, g)| (n.clone(), g.iter().map(|(k, v)| ((k.name.clone(), kind_idx(&k.unit_type)), fv_of(v))).collect())).collect()
}
fn r_canon(c: &Canon) -> String {
    c.iter().map(|(n, g)| format!("({} {})", enc_text(n), g.iter().map(|((u, k), v)| format!("({} {} {})", enc_text(u), KIND_NAMES[*k], r_fv(v))).collect::<Vec<_>>().join(" "))).collect::<Vec<_>>().join(" ")
}
fn r_list_result(r: &Result<IngredientList, String>) -> String {
    match r { Ok(l) => r_canon(&canon(l)), Err(p) => if p.contains("Unexpected type") { "panic:type".into() } else { "panic:unwrap".into() } }
}

// ---------------------------------------------------------------- S-expressions of view-level inputs

fn s_opt_text(o: &Option<String>) -> String { match o { None => "none".into(), Some(t) => format!("( some {} )", enc_text(t)) } }
fn s_fv(v: &FV) -> String {
    match v { FV::Number(x) => format!("( n {} )", bits(*x)), FV::Range(s, e) => format!("( r {} {} )", bits(*s), bits(*e)), FV::Text(t) => format!("( t {} )", enc_text(t)), FV::Empty => "e".into() }
}
fn s_ings(ings: &[(String, Amt)]) -> String {
    let mut s = String::from("(");
    for (n, a) in ings {
        let a = match a { None => "none".to_string(), Some((v, u)) => format!("( some ( amt {} {} ) )", s_fv(v), s_opt_text(u)) };
        s.push_str(&format!(" ( fi {} {} none )", enc_text(n), a));
    }
    s.push_str(" )");
    s
}
fn s_il(l: &[(String, Vec<(String, usize, FV)>)]) -> String {
    let mut s = String::from("(");
    for (n, g) in l {
        s.push_str(&format!(" ( il {} (", enc_text(n)));
        for (u, k, v) in g { s.push_str(&format!(" ( kv {} {} {} )", enc_text(u), KIND_NAMES[*k], s_fv(v))); }
        s.push_str(" ) )");
    }
    s.push_str(" )");
    s
}

// ---------------------------------------------------------------- the mirror clause

fn key_of(a: &Amt) -> (String, usize) {
    match a { None => (String::new(), 3), Some((v, u)) => (u.clone().unwrap_or_default(), match v { FV::Number(_) => 0, FV::Range(..) => 1, FV::Text(_) => 2, FV::Empty => 3 }) }
}

/// the property's mirror clauses evaluated on the implementation: view vs core recipe of the same input
fn mirror_oracle(core: &ScaledRecipe, view: &CooklangRecipe) -> Result<(), (String, &'static str)> {
    let bad = |m: String, sig: &'static str| Err((m, sig));
    let same_value = |cv: &CoreValue, fv: &FV| -> bool {
        match (cv, fv) {
            (CoreValue::Number(n), FV::Number(x)) => n.value().to_bits() == x.to_bits() || (n.value().is_nan() && x.is_nan()),
            (CoreValue::Range { start, end }, FV::Range(s, e)) => start.value().to_bits() == s.to_bits() && end.value().to_bits() == e.to_bits(),
            (CoreValue::Text(t), FV::Text(u)) => t == u,
            _ => false,
        }
    };
    // components
    if core.ingredients.len() != view.ingredients.len() || core.cookware.len() != view.cookware.len() || core.timers.len() != view.timers.len() {
        return bad("component counts differ".into(), "c19:mirror:components");
    }
    for (k, (c, f)) in core.ingredients.iter().zip(&view.ingredients).enumerate() {
        let amt_ok = match (&c.quantity, &f.amount) {
            (None, None) => true,
            (Some(q), Some(a)) => { let (v, u) = amount_parts(a); u.as_deref() == q.unit() && same_value(q.value(), &v) }
            _ => false,
        };
        if c.name != f.name || c.note != f.descriptor || !amt_ok { return bad(format!("ingredient {k}: core {c:?} vs view {f:?}"), "c19:mirror:ingredient"); }
    }
    for (k, (c, f)) in core.cookware.iter().zip(&view.cookware).enumerate() {
        let amt_ok = match (&c.quantity, &f.amount) {
            (None, None) => true,
            (Some(q), Some(a)) => { let (v, u) = amount_parts(a); u.is_none() && same_value(q, &v) }
            _ => false,
        };
        if c.name != f.name || !amt_ok { return bad(format!("cookware {k}: core {c:?} vs view {f:?}"), "c19:mirror:cookware"); }
    }
    for (k, (c, f)) in core.timers.iter().zip(&view.timers).enumerate() {
        let amt_ok = match (&c.quantity, &f.amount) {
            (None, None) => true,
            (Some(q), Some(a)) => { let (v, u) = amount_parts(a); u.as_deref() == q.unit() && same_value(q.value(), &v) }
            _ => false,
        };
        // a missing name is exposed as Some("") — that is how the view encodes it
        if c.name.clone().unwrap_or_default() != f.name.clone().unwrap_or_default() || !amt_ok { return bad(format!("timer {k}: core {c:?} vs view {f:?}"), "c19:mirror:timer"); }
    }
    // sections, blocks, items
    if core.sections.len() != view.sections.len() { return bad(format!("{} sections vs {}", core.sections.len(), view.sections.len()), "c19:mirror:sections"); }
    for (si, (cs, fs)) in core.sections.iter().zip(&view.sections).enumerate() {
        if cs.name != fs.title { return bad(format!("section {si} title {:?} vs {:?}", cs.name, fs.title), "c19:mirror:sections"); }
        if cs.content.len() != fs.blocks.len() { return bad(format!("section {si}: {} content elements, {} blocks", cs.content.len(), fs.blocks.len()), "c19:mirror:blocks"); }
        let (mut ir, mut cr, mut tr): (Vec<u32>, Vec<u32>, Vec<u32>) = (vec![], vec![], vec![]);
        for (bi, (cc, fb)) in cs.content.iter().zip(&fs.blocks).enumerate() {
            match (cc, fb) {
                (Content::Text(t), Block::NoteBlock(n)) => if *t != n.text { return bad(format!("section {si} block {bi}: text differs"), "c19:mirror:blocks"); },
                (Content::Step(st), Block::StepBlock(fst)) => {
                    if st.items.len() != fst.items.len() { return bad(format!("section {si} block {bi}: {} items vs {}", st.items.len(), fst.items.len()), "c19:mirror:items"); }
                    let (mut sir, mut scr, mut str_): (Vec<u32>, Vec<u32>, Vec<u32>) = (vec![], vec![], vec![]);
                    for (ci, fi) in st.items.iter().zip(&fst.items) {
                        let ok = match (ci, fi) {
                            (CoreItem::Text { value }, Item::Text { value: v }) => value == v,
                            (CoreItem::Ingredient { index }, Item::IngredientRef { index: i }) => { sir.push(*i); *index == *i as usize }
                            (CoreItem::Cookware { index }, Item::CookwareRef { index: i }) => { scr.push(*i); *index == *i as usize }
                            (CoreItem::Timer { index }, Item::TimerRef { index: i }) => { str_.push(*i); *index == *i as usize }
                            (CoreItem::InlineQuantity { .. }, Item::Text { value: v }) => v.is_empty(),
                            _ => false,
                        };
                        if !ok { return bad(format!("section {si} block {bi}: item {ci:?} vs {fi:?}"), "c19:mirror:items"); }
                        // every reference resolves to the component it denotes
                        let d = guarded(|| deref_component(view, fi.clone()));
                        let ok = match (fi, &d) {
                            (Item::IngredientRef { index }, Ok(Component::IngredientComponent(c))) => view.ingredients.get(*index as usize) == Some(c) && guarded(|| deref_ingredient(view, *index)).ok().as_ref() == Some(c),
                            (Item::CookwareRef { index }, Ok(Component::CookwareComponent(c))) => view.cookware.get(*index as usize) == Some(c) && guarded(|| deref_cookware(view, *index)).ok().as_ref() == Some(c),
                            (Item::TimerRef { index }, Ok(Component::TimerComponent(c))) => view.timers.get(*index as usize) == Some(c) && guarded(|| deref_timer(view, *index)).ok().as_ref() == Some(c),
                            (Item::Text { value }, Ok(Component::TextComponent(t))) => value == t,
                            _ => false,
                        };
                        if !ok { return bad(format!("section {si} block {bi}: item {fi:?} dereferences to {d:?}"), "c19:deref"); }
                    }
                    if sir != fst.ingredient_refs || scr != fst.cookware_refs || str_ != fst.timer_refs {
                        return bad(format!("section {si} block {bi}: step reference lists {:?} {:?} {:?} are not the indices of its items", fst.ingredient_refs, fst.cookware_refs, fst.timer_refs), "c19:step-refs");
                    }
                    ir.extend(&fst.ingredient_refs); cr.extend(&fst.cookware_refs); tr.extend(&fst.timer_refs);
                }
                _ => return bad(format!("section {si} block {bi}: kind differs"), "c19:mirror:blocks"),
            }
        }
        if ir != fs.ingredient_refs || cr != fs.cookware_refs || tr != fs.timer_refs {
            return bad(format!("section {si}: reference lists {:?} {:?} {:?} are not the concatenation of its steps' lists {ir:?} {cr:?} {tr:?}", fs.ingredient_refs, fs.cookware_refs, fs.timer_refs), "c19:section-refs");
        }
    }
    Ok(())
}


// ---------------------------------------------------------------- the rest of the exported surface: metadata, parse_recipe as a whole, aisle wrapper

fn r_str_map(m: &HashMap<String, String>) -> String {
    let b: BTreeMap<&String, &String> = m.iter().collect();
    b.iter().map(|(k, v)| format!("{}={}", enc_text(k), enc_text(v))).collect::<Vec<_>>().join(" ")
}
fn tok_opt(o: Option<&str>) -> String { match o { None => "n".into(), Some(t) => format!("s{}", enc_text(t)) } }

/// the view's `metadata` field and `parse_metadata`: both are the string→string entries of the core recipe's map
fn metadata_checks(ctx: &mut Ctx, core: &ScaledRecipe, view: &CooklangRecipe, input: &str, factor: f64) {
    let desc = format!("parse_recipe({input:?}, {factor:?}).metadata");
    let entries: Vec<(Option<&str>, Option<&str>)> = core.metadata.map.iter().map(|(k, v)| (k.as_str(), v.as_str())).collect();
    let req = format!("ffi_meta{}", entries.iter().map(|(k, v)| format!(" {} {}", tok_opt(*k), tok_opt(*v))).collect::<String>());
    ctx.count(&format!("metadata:entries:{}", entries.len().min(5)));
    for (k, v) in &entries { ctx.count(match (k, v) { (Some(_), Some(_)) => "metadata:entry:string-string", (Some(_), None) => "metadata:entry:value-not-a-string(dropped)", (None, _) => "metadata:entry:key-not-a-string(dropped)" }); }
    ctx.case(req.clone(), r_str_map(&view.metadata), !entries.is_empty(), desc.clone());
    // oracle: exactly the string→string entries (silent when two different YAML keys read as the same string)
    let skeys: Vec<&str> = entries.iter().filter_map(|(k, v)| if v.is_some() { *k } else { None }).collect();
    let distinct = skeys.iter().collect::<BTreeSet<_>>().len() == skeys.len();
    if distinct {
        let want: HashMap<String, String> = entries.iter().filter_map(|(k, v)| Some((k.as_ref()?.to_string(), v.as_ref()?.to_string()))).collect();
        if want != view.metadata { ctx.oracle_fail(desc.clone(), format!("view metadata {:?} is not the string entries {:?} of the core map", view.metadata, want), "c19:metadata:mirror".into()); }
    } else { ctx.count("metadata:two-keys-read-as-the-same-string"); }
    match guarded(|| parse_metadata(input.to_string(), factor)) {
        Ok(m) => {
            ctx.case(req, r_str_map(&m), !entries.is_empty(), format!("parse_metadata({input:?}, {factor:?})"));
            if m != view.metadata { ctx.oracle_fail(format!("parse_metadata({input:?}, {factor:?})"), format!("parse_metadata gives {m:?}, the view of parse_recipe has {:?}", view.metadata), "c19:metadata:parse_metadata".into()); }
        }
        Err(p) => ctx.oracle_fail(format!("parse_metadata({input:?}, {factor:?})"), format!("parse_recipe accepts the input but parse_metadata panics: {p}"), panic_signature(&p)),
    }
}

fn yaml_scalar(rng: &mut Rng) -> String {
    match rng.below(14) {
        0 => "2".into(), 1 => "1.5".into(), 2 => "true".into(), 3 => "null".into(), 4 => "~".into(), 5 => "\"quoted é\"".into(), 6 => "'single'".into(),
        7 => "!tag tagged".into(), 8 => "\"\"".into(), 9 => "2 people".into(), 10 => "1h 30min".into(), 11 => "https://x.example/r".into(),
        _ => rng.pick(&["Soup", "é", "a, b", "Jane <j@x.example>", "x y z", "-1", "0x10"]).to_string(),
    }
}
/// a YAML front matter: string and non-string keys and values, tagged scalars, sequences, nested maps, keys that read as the same string
fn gen_front_matter(rng: &mut Rng) -> String {
    let keys = ["title", "servings", "tags", "author", "source", "time", "prep time", "cook time", "description", "é", "x", "custom key", "1", "true", "null", "!k x", "\"x\"", "[a]", "2.5", "locale"];
    let mut s = String::from("---\n");
    let n = rng.below(7);
    for _ in 0..n {
        let k = *rng.pick(&keys);
        match rng.below(8) {
            0 => s.push_str(&format!("{k}: [{}, {}]\n", yaml_scalar(rng), yaml_scalar(rng))),
            1 => s.push_str(&format!("{k}:\n  - a\n  - 2\n")),
            2 => s.push_str(&format!("{k}:\n  name: n\n  url: {}\n", yaml_scalar(rng))),
            3 => s.push_str(&format!("{k}:\n")),
            _ => s.push_str(&format!("{k}: {}\n", yaml_scalar(rng))),
        }
    }
    if rng.chance(1, 25) { s.push_str("not yaml: [\n"); }
    s.push_str("---\n");
    s
}

/// `parse_aisle_config` + `AisleConf::category_for`: against the model, against the core configuration's own lookup, and
/// history independence (the answer to a query does not depend on the queries made before it on the same object)
fn one_aisle(ctx: &mut Ctx, rng: &mut Rng, input: &str) {
    let desc = format!("parse_aisle_config({input:?})");
    let core = match guarded(|| cooklang::aisle::parse(input)) { Ok(c) => c, Err(_) => { ctx.count("aisle:core-parser-panics(C11)"); return; } };
    let w = guarded(|| parse_aisle_config(input.to_string()));
    let core = match core {
        Err(_) => {
            ctx.count("aisle:rejected-by-core-parser(wrapper panics: unwrap)");
            if w.is_ok() { ctx.oracle_fail(desc.clone(), "the core parser rejects the file but the wrapper returns a configuration".into(), "c19:aisle:accepts-rejected".into()); }
            ctx.case(format!("ffi_aisle {}", enc_text(input)), if w.is_ok() { "ok?".into() } else { "panic".into() }, true, desc);
            return;
        }
        Ok(c) => c,
    };
    let w = match w { Ok(w) => w, Err(p) => { ctx.oracle_fail(desc, format!("the core parser accepts the file but parse_aisle_config panics: {p}"), panic_signature(&p)); return; } };
    ctx.count(&format!("aisle:accepted:cats={}", core.categories.len().min(4)));
    // mirror of the categories
    let same = core.categories.len() == w.categories.len() && core.categories.iter().zip(&w.categories).all(|(c, f)| c.name == f.name && c.ingredients.len() == f.ingredients.len() &&
        c.ingredients.iter().zip(&f.ingredients).all(|(i, fi)| i.names.first().copied() == Some(fi.name.as_str()) && i.names[1..].iter().copied().eq(fi.aliases.iter().map(|a| a.as_str()))));
    if !same { ctx.oracle_fail(desc.clone(), format!("categories of the wrapper {:?} do not mirror the core configuration {:?}", w.categories, core.categories), "c19:aisle:mirror".into()); }
    // queries: every name (some twice), absent probes, in a random order
    let names: Vec<String> = core.categories.iter().flat_map(|c| &c.ingredients).flat_map(|i| i.names.iter().map(|n| n.to_string())).collect();
    if names.iter().collect::<BTreeSet<_>>().len() != w.cache.len() { ctx.oracle_fail(desc.clone(), format!("{} cache entries for {} names", w.cache.len(), names.len()), "c19:aisle:cache-size".into()); }
    let mut qs: Vec<String> = names.iter().take(6).cloned().collect();
    for p in ["a", "", "zz", "[a]", "milk", "A"] { if rng.chance(1, 2) { qs.push(p.to_string()); } }
    for c in core.categories.iter().take(2) { if rng.chance(1, 3) { qs.push(c.name.to_string()); } }
    let extra = qs.len().min(3);
    for _ in 0..extra { let q = qs[rng.below(qs.len())].clone(); qs.push(q); }
    rng.shuffle(&mut qs);
    let info = core.ingredients_info();
    let answers: Vec<Option<String>> = qs.iter().map(|q| w.category_for(q.clone())).collect();
    for (q, a) in qs.iter().zip(&answers) {
        ctx.count(if a.is_some() { "aisle:query:found" } else { "aisle:query:absent" });
        let want = info.get(q.as_str()).map(|i| i.category.to_string());
        if *a != want { ctx.oracle_fail(format!("{desc}.category_for({q:?})"), format!("wrapper answers {a:?}, the core configuration's ingredients_info gives {want:?}"), "c19:aisle:category_for".into()); }
    }
    // history independence: a fresh object asked one question, and the same object asked again in the reverse order
    for (k, q) in qs.iter().enumerate().rev() {
        let again = w.category_for(q.clone());
        let fresh = parse_aisle_config(input.to_string()).category_for(q.clone());
        if again != answers[k] || fresh != answers[k] {
            ctx.oracle_fail(format!("{desc}.category_for({q:?}) after {:?}", &qs[..k]), format!("answer {:?} in the sequence, {again:?} when asked again, {fresh:?} on a fresh object", answers[k]), "c19:aisle:history".into());
        }
    }
    let cats = w.categories.iter().flat_map(|c| { let mut v = vec!["C".to_string(), enc_text(&c.name)]; for i in &c.ingredients { v.push(format!("I{}", 1 + i.aliases.len())); v.push(enc_text(&i.name)); v.extend(i.aliases.iter().map(|a| enc_text(a))); } v }).collect::<Vec<_>>().join(" ");
    let reply = format!("cats {} # cache {} # {}", cats, r_str_map(&w.cache), answers.iter().map(r_opt_text).collect::<Vec<_>>().join(" "));
    ctx.case(format!("ffi_aisle {}{}", enc_text(input), qs.iter().map(|q| format!(" {}", enc_text(q))).collect::<String>()), reply, !names.is_empty(), format!("{desc}, category_for of {qs:?}"));
}

fn one_recipe(ctx: &mut Ctx, parser: &CooklangParser, input: &str, factor: f64) {
    let desc = format!("parse_recipe({input:?}, {factor:?})");
    let parsed = match guarded(|| parser.parse(input).into_result()) {
        Ok(Ok((r, _))) => r,
        Ok(Err(rep)) => {
            ctx.count("recipe:rejected-by-canonical-parser");
            if let Some(e) = rep.errors().next() { let m: String = e.to_string().chars().take(40).collect(); ctx.count(&format!("recipe:rejected:{m}")); }
            // the wrapper unwraps the pass result: a rejected input is a panic (the property is silent; C03 is not).  Model: the same, except that
            // the validity of a front matter's YAML is outside the model
            if !input.trim_start().starts_with("---") {
                let r = guarded(|| cooklang_bindings::parse_recipe(input.to_string(), factor));
                ctx.count(if r.is_err() { "parse_recipe:rejected-input-panics(unwrap)" } else { "parse_recipe:rejected-input-returns" });
                ctx.case(format!("ffi_parse {} {}", bits(factor), enc_text(input)), match &r { Ok(v) => r_view(v), Err(_) => "panic:unwrap".into() }, true, desc);
            }
            return;
        }
        Err(_) => { ctx.count("recipe:parser-panics(C03)"); return; }
    };
    let core = parsed.scale(factor, parser.converter());
    let view = match guarded(|| cooklang_bindings::parse_recipe(input.to_string(), factor)) {
        Ok(v) => v,
        Err(p) => { ctx.oracle_fail(desc, format!("the canonical parser accepts the input but parse_recipe panics: {p}"), panic_signature(&p)); return; }
    };
    ctx.count("recipe:accepted");
    ctx.count(&format!("recipe:sections:{}", core.sections.len().min(4)));
    let n_items: usize = core.sections.iter().flat_map(|s| &s.content).map(|c| if let Content::Step(s) = c { s.items.len() } else { 0 }).sum();
    ctx.count(&format!("recipe:items:{}", match n_items { 0 => "0", 1..=3 => "1-3", 4..=10 => "4-10", _ => ">10" }));
    if core.sections.iter().flat_map(|s| &s.content).any(|c| matches!(c, Content::Text(_))) { ctx.count("recipe:has-text-block"); }
    for i in &core.ingredients { match i.quantity.as_ref().map(|q| q.value()) { None => ctx.count("ingredient:no-quantity"), Some(CoreValue::Number(n)) => { ctx.count("ingredient:number"); if matches!(n, cooklang::quantity::Number::Fraction { .. }) { ctx.count("ingredient:number:fraction"); } } Some(CoreValue::Range { .. }) => ctx.count("ingredient:range"), Some(CoreValue::Text(_)) => ctx.count("ingredient:text") }
        if i.note.is_some() { ctx.count("ingredient:note"); } if i.quantity.as_ref().is_some_and(|q| q.unit().is_some()) { ctx.count("ingredient:unit"); } }
    ctx.count_n("cookware", core.cookware.len() as u64);
    for t in &core.timers { ctx.count(if t.name.is_some() { "timer:named" } else { "timer:unnamed" }); }
    let nontrivial = !core.ingredients.is_empty() || !core.cookware.is_empty() || !core.timers.is_empty();
    ctx.case(format!("ffi {}", recipe_sexp::scaled_recipe(&core)), r_view(&view), nontrivial, desc.clone());
    // parse_recipe as a whole (parser model + into_result + scale + view) on the input text
    if ctx.thorough || crate::util::hash64(input) % 3 == 0 || input.len() < 40 {
        ctx.count("parse_recipe:whole-wrapper-compared");
        ctx.case(format!("ffi_parse {} {}", bits(factor), enc_text(input)), r_view(&view), nontrivial, desc.clone());
    }
    metadata_checks(ctx, &core, &view, input, factor);
    if let Err((m, sig)) = mirror_oracle(&core, &view) { ctx.oracle_fail(desc, m, sig.to_string()); }
}

// ---------------------------------------------------------------- recipe text generator (canonical syntax)

const NAMES1: &[&str] = &["flour", "salt", "egg", "water", "é", "oil", "Zucker", "рис"];
const NAMESN: &[&str] = &["sea salt", "olive oil", "crème fraîche", "egg yolk", "brown  sugar", "2nd rise"];
const UNITS: &[&str] = &["g", "kg", "ml", "cup", "cups", "tbsp", "min", "minutes", "h", "°C", "large", "l", "T", "t", "mL", "G"];
const NUMS: &[&str] = &["1", "2", "200", "0.5", "1.5", "1/2", "1 1/2", "3/4", "0", "10.25", "7/3", "1000000", "0.1", "2/3", "1 2/3", "7 1/3", "3 5/7", "100000 1/50000", "1 1/10"];
const TEXTV: &[&str] = &["a few", "some", "2-3", "a pinch", "1 or 2", "01", "one"];
const WORDS: &[&str] = &["Mix", "the", "and", "then", "bake", "until", "golden", "add", "stir", "well", "für", "10", "minutes", "slowly", "."];
const NOTES: &[&str] = &["sifted", "finely chopped", "room temperature", "é", "big one"];

fn words(rng: &mut Rng, max: usize) -> String { let n = 1 + rng.below(max); (0..n).map(|_| *rng.pick(WORDS)).collect::<Vec<_>>().join(" ") }
fn qty(rng: &mut Rng, allow_unit: bool) -> String {
    let v = match rng.below(10) { 0 => String::new(), 1 | 2 => rng.pick(TEXTV).to_string(), _ => rng.pick(NUMS).to_string() };
    if allow_unit && rng.chance(3, 5) && (!v.is_empty() || rng.chance(1, 20)) { format!("{v}%{}", rng.pick(UNITS)) } else { v }
}
fn component(rng: &mut Rng) -> String {
    match rng.below(10) {
        0..=4 => {
            let mut s = if rng.chance(1, 3) { format!("@{}{{{}}}", rng.pick(NAMESN), qty(rng, true)) }
                else if rng.chance(1, 3) { format!("@{}", rng.pick(NAMES1)) } else { format!("@{}{{{}}}", rng.pick(NAMES1), qty(rng, true)) };
            if rng.chance(1, 4) { s.push_str(&format!("({})", rng.pick(NOTES))); }
            s
        }
        5 | 6 => {
            let mut s = if rng.chance(1, 2) { format!("#{}", rng.pick(&["pot", "pan", "bowl", "Löffel"])) } else { format!("#{}{{{}}}", rng.pick(&["frying pan", "pot", "baking sheet"]), qty(rng, false)) };
            if rng.chance(1, 5) { s.push_str(&format!("({})", rng.pick(NOTES))); }
            s
        }
        _ => match rng.below(4) {
            0 => format!("~{{{}%{}}}", rng.pick(NUMS), rng.pick(&["min", "minutes", "h", "s"])),
            1 => format!("~{}{{{}%{}}}", rng.pick(&["rest", "bake", "é"]), rng.pick(NUMS), rng.pick(&["min", "h"])),
            2 => format!("~{}", rng.pick(&["rest", "proof"])),
            _ => if rng.chance(1, 6) { format!("~{}{{{}}}", rng.pick(&["rest", ""]), qty(rng, true)) } else { format!("~{}{{{}%{}}}", rng.pick(&["rest", ""]), rng.pick(TEXTV), rng.pick(UNITS)) },
        },
    }
}
fn step(rng: &mut Rng) -> String {
    let n = rng.below(6);
    let mut s = String::new();
    if rng.chance(4, 5) { s.push_str(&words(rng, 4)); s.push(' '); }
    for _ in 0..n {
        s.push_str(&component(rng));
        match rng.below(5) { 0 => s.push('\n'), 1 => {} , _ => { s.push(' '); s.push_str(&words(rng, 3)); s.push(' '); } }
    }
    s
}
fn gen_recipe(rng: &mut Rng) -> String {
    let mut s = String::new();
    if rng.chance(1, 6) { s.push_str("---\ntitle: Test é\nservings: 2\ntags: [a, b]\n---\n"); }
    else if rng.chance(1, 4) { s.push_str(&gen_front_matter(rng)); }
    else if rng.chance(1, 12) { for _ in 0..1 + rng.below(3) { s.push_str(&format!(">> {}: {}\n", rng.pick(&["title", "servings", "x", "é", "time"]), rng.pick(&["Soup", "2", "é é", "1h", ""]))); } }
    let nsec = 1 + rng.below(3);
    for si in 0..nsec {
        if si > 0 || rng.chance(1, 3) {
            match rng.below(4) { 0 => s.push_str("=\n\n"), 1 => s.push_str(&format!("== {} ==\n\n", rng.pick(&["Dough", "Filling é", "To serve"]))), _ => s.push_str(&format!("= {}\n\n", rng.pick(&["Dough", "Sauce", "Крем"]))) }
        }
        let nb = rng.below(4);
        for _ in 0..nb {
            if rng.chance(1, 5) { s.push_str(&format!("> {}\n\n", words(rng, 6))); } else { s.push_str(&step(rng)); s.push_str("\n\n"); }
        }
    }
    s
}

// ---------------------------------------------------------------- combining

fn approx(a: f64, b: f64, scale: f64, exact: bool) -> bool { if exact { a == b } else { (a - b).abs() <= 1e-9 * scale.max(1.0) } }

/// numeric entries of two combined lists agree (exactly, or up to rounding when the inputs are not dyadic); same key sets
fn numeric_agree(a: &Canon, b: &Canon, exact: bool) -> Result<(), String> {
    let keys = |c: &Canon| -> BTreeSet<(String, String, usize)> { c.iter().flat_map(|(n, g)| g.keys().map(move |(u, k)| (n.clone(), u.clone(), *k))).collect() };
    if keys(a) != keys(b) { return Err(format!("key sets differ: {:?} vs {:?}", keys(a), keys(b))); }
    for (n, g) in a { for (k, va) in g {
        let vb = &b[n][k];
        let ok = match (va, vb) {
            (FV::Number(x), FV::Number(y)) => approx(*x, *y, x.abs(), exact),
            (FV::Range(s1, e1), FV::Range(s2, e2)) => approx(*s1, *s2, s1.abs(), exact) && approx(*e1, *e2, e1.abs(), exact),
            (FV::Text(_), FV::Text(_)) => true, // concatenation order: the property does not speak about it
            (FV::Empty, FV::Empty) => true,
            _ => false,
        };
        if !ok { return Err(format!("{n:?} {k:?}: {va:?} vs {vb:?}")); }
    } }
    Ok(())
}

fn build(ings: &[(String, Amt)]) -> Vec<Ingredient> { ings.iter().map(|(n, a)| mk_ingredient(n, a, &None)).collect() }

fn permutations(n: usize) -> Vec<Vec<usize>> {
    fn go(cur: &mut Vec<usize>, used: &mut Vec<bool>, n: usize, out: &mut Vec<Vec<usize>>) {
        if cur.len() == n { out.push(cur.clone()); return; }
        for i in 0..n { if !used[i] { used[i] = true; cur.push(i); go(cur, used, n, out); cur.pop(); used[i] = false; } }
    }
    let mut out = vec![]; go(&mut vec![], &mut vec![false; n], n, &mut out); out
}

fn one_combine(ctx: &mut Ctx, rng: &mut Rng, ings: &[(String, Amt)], exact: bool, finite: bool) {
    let desc = format!("combine_ingredients({ings:?})");
    let v = build(ings);
    let res = guarded(|| combine_ingredients(&v));
    ctx.count(&format!("combine:len:{}", ings.len().min(9)));
    for (_, a) in ings { ctx.count(&format!("combine:kind:{}", KIND_NAMES[key_of(a).1])); }
    ctx.case(format!("combine {}", s_ings(ings)), r_list_result(&res), ings.len() > 1, desc.clone());
    if !finite { return; }   // the non-finite stream is compared with the model only
    let got = match &res { Ok(l) => canon(l), Err(p) => { ctx.oracle_fail(desc, format!("combine_ingredients panics: {p}"), panic_signature(p)); return; } };
    // sums per (name, unit, kind), every input counted once
    let mut want: BTreeMap<(String, String, usize), (f64, f64, f64, usize)> = BTreeMap::new();
    for (n, a) in ings {
        let (u, k) = key_of(a);
        let e = want.entry((n.clone(), u, k)).or_insert((0.0, 0.0, 0.0, 0));
        match a { Some((FV::Number(x), _)) => { e.0 += x; e.2 += x.abs(); } Some((FV::Range(s, t), _)) => { e.0 += s; e.1 += t; e.2 += s.abs().max(t.abs()); } _ => {} }
        e.3 += 1;
    }
    let got_keys: BTreeSet<(String, String, usize)> = got.iter().flat_map(|(n, g)| g.keys().map(move |(u, k)| (n.clone(), u.clone(), *k))).collect();
    let want_keys: BTreeSet<(String, String, usize)> = want.keys().cloned().collect();
    if got_keys != want_keys { ctx.oracle_fail(desc.clone(), format!("keys of the combined list {got_keys:?} are not the (name, unit, kind) keys of the inputs {want_keys:?}"), "c19:combine:keys".into()); return; }
    for ((n, u, k), (s, t, scale, cnt)) in &want {
        let v = &got[n][&(u.clone(), *k)];
        let ok = match (k, v) {
            (0, FV::Number(x)) => approx(*x, *s, *scale, exact),
            (1, FV::Range(a, b)) => approx(*a, *s, *scale, exact) && approx(*b, *t, *scale, exact),
            (2, FV::Text(_)) | (3, FV::Empty) => true,
            _ => false,
        };
        if !ok { ctx.oracle_fail(desc.clone(), format!("({n:?}, {u:?}, {}): combined {v:?}, the {cnt} inputs sum to {s:?} / {t:?}", KIND_NAMES[*k]), "c19:combine:sum".into()); return; }
    }
    // order of the inputs
    if ings.len() >= 2 {
        let perms: Vec<Vec<usize>> = if ings.len() <= 5 { ctx.count("combine:all-permutations"); permutations(ings.len()) }
            else { (0..6).map(|_| { let mut p: Vec<usize> = (0..ings.len()).collect(); rng.shuffle(&mut p); p }).collect() };
        for (pi, p) in perms.iter().enumerate() {
            let pv: Vec<Ingredient> = p.iter().map(|&i| v[i].clone()).collect();
            let r = guarded(|| combine_ingredients(&pv));
            ctx.eval("", false);
            match &r {
                Ok(l) => if let Err(m) = numeric_agree(&got, &canon(l), exact) {
                    ctx.oracle_fail(format!("{desc} vs the permutation {p:?}"), format!("combined amounts depend on the input order: {m}"), "c19:combine:order".into()); return; },
                Err(pn) => { ctx.oracle_fail(format!("{desc} permuted by {p:?}"), format!("panic {pn}"), panic_signature(pn)); return; }
            }
            if pi % 29 == 1 { let pin: Vec<(String, Amt)> = p.iter().map(|&i| ings[i].clone()).collect(); ctx.case(format!("combine {}", s_ings(&pin)), r_list_result(&r), true, format!("combine_ingredients({pin:?})")); }
        }
    }
    // selections
    if !ings.is_empty() {
        for _ in 0..3 {
            let k = rng.below(ings.len() + 3);
            let idx: Vec<u32> = (0..k).map(|_| rng.below(ings.len()) as u32).collect();
            let sel = guarded(|| combine_ingredients_selected(&v, &idx));
            let sub: Vec<Ingredient> = idx.iter().map(|&i| v[i as usize].clone()).collect();
            let direct = guarded(|| combine_ingredients(&sub));
            ctx.count("combine:selection");
            ctx.case(format!("combine_sel {} ( {} )", s_ings(ings), idx.iter().map(|i| i.to_string()).collect::<Vec<_>>().join(" ")), r_list_result(&sel), idx.len() > 1, format!("combine_ingredients_selected({ings:?}, {idx:?})"));
            if r_list_result(&sel) != r_list_result(&direct) || sel.is_err() {
                ctx.oracle_fail(format!("combine_ingredients_selected({ings:?}, {idx:?})"), format!("selection gives {} but combining the selected sub-list gives {}", r_list_result(&sel), r_list_result(&direct)), "c19:combine:selection".into());
                return;
            }
        }
    }
}

fn gen_amount(rng: &mut Rng, exact: bool) -> Amt {
    // units are keys as written: spellings that differ in case (`T` tablespoon / `t` teaspoon), width or accents are different units
    let unit = match rng.below(9) { 0 => None, 1 => Some(String::new()), 2 => Some("g".to_string()), 3 => Some("kg".to_string()), 4 => Some("T".to_string()), 5 => Some("t".to_string()), 6 => Some(rng.pick(&["mL", "ml", "G", "Kg", "É l", " g"]).to_string()), _ => Some("é l".to_string()) };
    let num = |rng: &mut Rng| if exact { rng.range(0, 4000) as f64 / 8.0 } else { (rng.unit_f64() * 1000.0 * 1e3).round() / 1e3 };
    match rng.below(12) {
        0 => None,
        1 => Some((FV::Empty, unit)),
        2 | 3 => Some((FV::Text(rng.pick(&["a pinch", "some", "", "é"]).to_string()), unit)),
        4 | 5 | 6 => { let a = num(rng); let b = num(rng); Some((FV::Range(a.min(b), a.max(b)), unit)) }
        _ => Some((FV::Number(num(rng)), unit)),
    }
}
fn gen_ings(rng: &mut Rng, n: usize, exact: bool) -> Vec<(String, Amt)> {
    let pool = ["salt", "pepper", "é", "", "sea salt", "Salt", "Olive Oil", "É"];   // names are keys as written: `Salt` and `salt` are two entries
    let np = 1 + rng.below(pool.len());
    (0..n).map(|_| (pool[rng.below(np)].to_string(), gen_amount(rng, exact))).collect()
}

fn gen_il(rng: &mut Rng, consistent: bool) -> Vec<(String, Vec<(String, usize, FV)>)> {
    let names = ["salt", "pepper", "é", "Salt", "Olive Oil"];
    let mut out: Vec<(String, Vec<(String, usize, FV)>)> = vec![];
    for n in names.iter().take(1 + rng.below(5)) {
        if rng.chance(1, 3) { continue; }
        let mut g: Vec<(String, usize, FV)> = vec![];
        for u in ["", "g", "kg", "T", "t", "G"] { for k in 0..4usize {
            if !rng.chance(1, 3) { continue; }
            let kv = if consistent || rng.chance(3, 4) { k } else { rng.below(4) };
            let v = match kv { 0 => FV::Number(rng.range(0, 80) as f64 / 8.0), 1 => FV::Range(rng.range(0, 8) as f64, rng.range(8, 16) as f64), 2 => FV::Text(rng.pick(&["a", "b ", ""]).to_string()), _ => FV::Empty };
            g.push((u.to_string(), k, v));
        } }
        rng.shuffle(&mut g);
        out.push((n.to_string(), g));
    }
    out
}
fn build_il(l: &[(String, Vec<(String, usize, FV)>)]) -> IngredientList {
    let kinds = [QuantityType::Number, QuantityType::Range, QuantityType::Text, QuantityType::Empty];
    l.iter().map(|(n, g)| (n.clone(), g.iter().map(|(u, k, v)| (GroupedQuantityKey { name: u.clone(), unit_type: kinds[*k].clone() },
        match v { FV::Number(x) => Value::Number { value: *x }, FV::Range(s, e) => Value::Range { start: *s, end: *e }, FV::Text(t) => Value::Text { value: t.clone() }, FV::Empty => Value::Empty })).collect::<GroupedQuantity>())).collect()
}

pub fn run(ctx: &mut Ctx) {
    ctx.rule = "ffi: structured canonical-syntax recipes (sections, multi-line steps, text blocks, ingredients/cookware/timers with numeric, fraction, text and missing \
quantities, units, notes, front matter) plus the shared recipe/soup generators, each at several scaling factors; only inputs the canonical parser accepts are evaluated; \
combine: ingredient lists with repeated names/units/kinds (Number, Range, Text, Empty, no amount), ALL permutations up to length 5 (samples above), random selections with \
repetitions, a non-finite/overflow stream and out-of-range selections for correspondence only; merge_lists: consistent and kind-inconsistent maps; \
metadata: YAML front matters with string / non-string / tagged keys and values and `>>` lines (view.metadata and parse_metadata vs the core map); ffi_parse: parse_recipe as a whole on the input text \
(accepted inputs, and rejected ones without front matter); aisle: files of C11's generators (clean, messy, mutants, soups), category_for of every name and absent probes in random orders with repetitions on ONE object, \
compared with the core configuration's lookup, with a fresh object and with the same object asked again (history independence). \
non-trivial = the recipe has a component / the list has more than one entry; distinct = distinct request lines".into();
    let parser = CooklangParser::canonical();
    let factors = [1.0, 2.0, 0.5, 3.0, 1.0 / 3.0, 0.0, 1e6];

    // corpus first
    for line in crate::corpus::load("C19") {
        if let Some(rest) = line.strip_prefix("recipe ") { one_recipe(ctx, &parser, rest, 1.0); one_recipe(ctx, &parser, rest, 2.5); }
    }
    for t in ["a test @step @salt{1%mg} more text", "", "\n", "= only section", "> just a note", "~{5%min} ~rest ~x{1}", "@a{1/2%cup}(n) #b{2}(m) #c{big}",
              "@a @a{2} @a{2%g}\n\n= S\n\n@a{3%g}", "---\ntitle: x\n---\n@salt{}", "text only step", "@x{0.1} @y{1 1/2%kg}"] {
        for f in factors { one_recipe(ctx, &parser, t, f); }
    }
    let mut rng = Rng::new(ctx.seed ^ 0xC19);
    let n_rec = if ctx.thorough { 150_000 } else { 6_000 };
    for i in 0..n_rec {
        let src = if i % 8 == 7 { crate::gen::recipe(&mut rng) } else { gen_recipe(&mut rng) };
        let f = if i % 3 == 0 { *rng.pick(&factors) } else { (rng.unit_f64() * 8.0 * 64.0).round() / 64.0 };
        one_recipe(ctx, &parser, &src, f);
    }

    // front matters: keys/values that are not strings, tagged scalars, keys that read as the same string
    for fm in ["---\ntitle: x\nservings: 2\n---\n@a", "---\n!t k: v\nk: w\n---\n", "---\nk: w\n!t k: v\n---\n", "---\n1: one\ntrue: yes\nnull: z\n[a]: l\n---\ntext",
               "---\na: !t v\nb: [x]\nc: {d: e}\nd:\ne: \"\"\n---\n", "---\n---\n", "---\n\"x\": 1\nx y: z w\n---\n", ">> a: b\n>> a: c\n>> d: e\n@x", "---\nnot yaml: [\n---\n@a"] {
        for f in [1.0, 2.0] { one_recipe(ctx, &parser, fm, f); }
    }

    // the aisle wrapper: files of C11's generators
    let mut rng = Rng::new(ctx.seed ^ 0xC19A);
    for s in ["", "[a]", "[dairy]\nmilk|whole milk\nbutter\n[b]\negg", "[a]\nx|\ny|", "x", "[a]\nx|x", "[a]\n[a]", "[a|b]", "[é]\n é | e //c\r\n\n[]\n|z", "[a]\n|"] { one_aisle(ctx, &mut rng, s); }
    for i in 0..(if ctx.thorough { 60_000 } else { 4_000 }) {
        let s = match i % 6 {
            0 | 1 => crate::props::c11::gen_file(&mut rng, false),
            2 | 3 => crate::props::c11::gen_file(&mut rng, true),
            4 => { let base = crate::props::c11::gen_file(&mut rng, i % 4 == 0); crate::props::c11::mutate(&mut rng, &base) }
            _ => crate::props::c11::soup(&mut rng),
        };
        one_aisle(ctx, &mut rng, &s);
    }

    // combining: exhaustive small shapes, then random lists
    let mut rng = Rng::new(ctx.seed ^ 0xC19C);
    one_combine(ctx, &mut rng, &[], true, true);
    let n_lists = if ctx.thorough { 150_000 } else { 6_000 };
    for i in 0..n_lists {
        let exact = i % 4 != 3;
        let n = if i % 5 == 4 { 6 + rng.below(6) } else { 1 + rng.below(5) };
        let ings = gen_ings(&mut rng, n, exact);
        one_combine(ctx, &mut rng, &ings, exact, true);
    }
    // non-finite / overflowing amounts, out-of-range selections: correspondence only (the property is about numeric sums of finite amounts)
    let specials = [f64::INFINITY, f64::NEG_INFINITY, f64::MAX, -f64::MAX, 1e308, f64::MIN_POSITIVE, -0.0, 0.0, 5e-324];
    for _ in 0..(if ctx.thorough { 4000 } else { 400 }) {
        let n = 1 + rng.below(5);
        let ings: Vec<(String, Amt)> = (0..n).map(|_| ("x".to_string(), Some((if rng.chance(1, 3) { FV::Range(*rng.pick(&specials), *rng.pick(&specials)) } else { FV::Number(*rng.pick(&specials)) }, None)))).collect();
        one_combine(ctx, &mut rng, &ings, false, false);
    }
    for _ in 0..(if ctx.thorough { 2000 } else { 200 }) {
        let n = rng.below(4);
        let ings = gen_ings(&mut rng, n, true);
        let idx: Vec<u32> = (0..1 + rng.below(4)).map(|_| rng.below(ings.len() + 2) as u32).collect();
        let v = build(&ings);
        let r = guarded(|| combine_ingredients_selected(&v, &idx));
        ctx.count(if r.is_err() { "combine:selection-out-of-range-panics(C03)" } else { "combine:selection" });
        ctx.case(format!("combine_sel {} ( {} )", s_ings(&ings), idx.iter().map(|i| i.to_string()).collect::<Vec<_>>().join(" ")), r_list_result(&r), true, format!("combine_ingredients_selected({ings:?}, {idx:?})"));
    }
    // merge_ingredient_lists (public, iterates `right` in hash order): correspondence with the model run in list order
    for i in 0..(if ctx.thorough { 20_000 } else { 1_500 }) {
        let consistent = i % 3 != 2;
        let (l, r) = (gen_il(&mut rng, consistent), gen_il(&mut rng, consistent));
        let (mut left, right) = (build_il(&l), build_il(&r));
        let res = guarded(move || { cooklang_bindings::model::merge_ingredient_lists(&mut left, &right); left });
        ctx.count(if res.is_err() { "merge_lists:panic-unexpected-type" } else { "merge_lists:ok" });
        ctx.case(format!("merge_lists {} {}", s_il(&l), s_il(&r)), r_list_result(&res), true, format!("merge_ingredient_lists({l:?}, {r:?})"));
    }
}
