//! C15 Recipes survive serialization.
use crate::ctx::Ctx;
use crate::recipe_sexp;
use crate::rng::Rng;
use crate::util::{bits, enc_text, guarded, panic_signature};
use cooklang::convert::System;
use cooklang::quantity::{Number, Value};
use cooklang::scale::{ScaleOutcome, Scaled};
use cooklang::{CooklangParser, ScalableRecipe, ScalableValue, ScaledRecipe};

// ---------------------------------------------------------------- canonical JSON text (as lean/CookModel/Driver/Serde.lean)

/// Rewrites a JSON text as produced by serde_json (no insignificant spaces are assumed, but tolerated):
/// strings and keys → quoted code-point lists, floats → `#bits`, integers unchanged; order preserved.
pub(crate) fn canon_json(src: &str) -> Result<String, String> {
    let b: Vec<char> = src.chars().collect();
    let mut i = 0usize;
    let mut out = String::with_capacity(src.len() * 2);
    while i < b.len() {
        let c = b[i];
        match c {
            '"' => {
                i += 1;
                let mut s = String::new();
                loop {
                    if i >= b.len() { return Err("unterminated string".into()); }
                    let c = b[i];
                    i += 1;
                    match c {
                        '"' => break,
                        '\\' => {
                            let e = *b.get(i).ok_or("bad escape")?;
                            i += 1;
                            match e {
                                'n' => s.push('\n'), 't' => s.push('\t'), 'r' => s.push('\r'), 'b' => s.push('\u{8}'), 'f' => s.push('\u{c}'),
                                '"' => s.push('"'), '\\' => s.push('\\'), '/' => s.push('/'),
                                'u' => {
                                    let hex = |i: usize| -> Result<u32, String> { u32::from_str_radix(&b.get(i..i + 4).ok_or("bad \\u")?.iter().collect::<String>(), 16).map_err(|e| e.to_string()) };
                                    let mut cp = hex(i)?; i += 4;
                                    if (0xD800..0xDC00).contains(&cp) && b.get(i) == Some(&'\\') && b.get(i + 1) == Some(&'u') {
                                        let lo = hex(i + 2)?; i += 6;
                                        cp = 0x10000 + ((cp - 0xD800) << 10) + (lo - 0xDC00);
                                    }
                                    s.push(char::from_u32(cp).ok_or("bad code point")?);
                                }
                                _ => return Err(format!("unknown escape \\{e}")),
                            }
                        }
                        c => s.push(c),
                    }
                }
                out.push('"'); out.push_str(&enc_text(&s)); out.push('"');
            }
            '-' | '0'..='9' => {
                let st = i;
                while i < b.len() && matches!(b[i], '-' | '+' | '.' | 'e' | 'E' | '0'..='9') { i += 1; }
                let lit: String = b[st..i].iter().collect();
                if lit.contains(['.', 'e', 'E']) { out.push('#'); out.push_str(&bits(lit.parse::<f64>().map_err(|e| e.to_string())?)); } else { out.push_str(&lit); }
            }
            ' ' | '\n' | '\t' | '\r' => i += 1,
            _ => { out.push(c); i += 1; }
        }
    }
    Ok(out)
}

// ---------------------------------------------------------------- S-expression of the parts that are not in `Recipe` of the model

fn jv(v: &serde_yaml::Value) -> Result<String, String> {
    use serde_yaml::Value as Y;
    Ok(match v {
        Y::Null => "null".into(),
        Y::Bool(b) => b.to_string(),
        Y::Number(n) => if let Some(u) = n.as_u64() { format!("( i {u} )") } else if let Some(i) = n.as_i64() { format!("( i {i} )") }
            else { let f = n.as_f64().unwrap(); if f.is_finite() { format!("( f {} )", bits(f)) } else { "null".into() } },
        Y::String(s) => format!("( s {} )", enc_text(s)),
        Y::Sequence(s) => { let mut o = String::from("( a"); for x in s { o.push(' '); o.push_str(&jv(x)?); } o.push_str(" )"); o }
        Y::Mapping(m) => format!("( o {} )", kvs(m)?),
        Y::Tagged(_) => return Err("tagged YAML value".into()),
    })
}
pub(crate) fn kvs(m: &serde_yaml::Mapping) -> Result<String, String> {
    let mut o = String::from("(");
    for (k, v) in m {
        let k = k.as_str().ok_or_else(|| format!("non-string YAML key {k:?}"))?;
        o.push_str(&format!(" ( {} {} )", enc_text(k), jv(v)?));
    }
    o.push_str(" )");
    Ok(o)
}
fn yaml_nonfinite(v: &serde_yaml::Value) -> bool {
    use serde_yaml::Value as Y;
    match v {
        Y::Number(n) => n.as_f64().is_some_and(|f| !f.is_finite()) && n.as_i64().is_none() && n.as_u64().is_none(),
        Y::Sequence(s) => s.iter().any(yaml_nonfinite),
        Y::Mapping(m) => m.iter().any(|(k, v)| yaml_nonfinite(k) || yaml_nonfinite(v)),
        Y::Tagged(t) => yaml_nonfinite(&t.value),
        _ => false,
    }
}
fn num_finite(n: &Number) -> bool { match n { Number::Regular(v) => v.is_finite(), Number::Fraction { err, .. } => err.is_finite() } }
fn value_finite(v: &Value) -> bool { match v { Value::Number(n) => num_finite(n), Value::Range { start, end } => num_finite(start) && num_finite(end), Value::Text(_) => true } }
fn sv_finite(v: &ScalableValue) -> bool { match v { ScalableValue::Fixed(v) | ScalableValue::Linear(v) => value_finite(v) } }

pub(crate) fn scalable_finite(r: &ScalableRecipe) -> bool {
    r.ingredients.iter().all(|i| i.quantity.as_ref().map_or(true, |q| sv_finite(q.value())))
        && r.cookware.iter().all(|i| i.quantity.as_ref().map_or(true, sv_finite))
        && r.timers.iter().all(|i| i.quantity.as_ref().map_or(true, |q| sv_finite(q.value())))
        && r.inline_quantities.iter().all(|q| value_finite(q.value()))
        && !r.metadata.map.iter().any(|(k, v)| yaml_nonfinite(k) || yaml_nonfinite(v))
}
pub(crate) fn scaled_finite(r: &ScaledRecipe) -> bool {
    r.ingredients.iter().all(|i| i.quantity.as_ref().map_or(true, |q| value_finite(q.value())))
        && r.cookware.iter().all(|i| i.quantity.as_ref().map_or(true, value_finite))
        && r.timers.iter().all(|i| i.quantity.as_ref().map_or(true, |q| value_finite(q.value())))
        && r.inline_quantities.iter().all(|q| value_finite(q.value()))
        && !r.metadata.map.iter().any(|(k, v)| yaml_nonfinite(k) || yaml_nonfinite(v))
        && r.scaled_data().map_or(true, |d| d.target.factor().is_finite())
}

fn outcome(o: &ScaleOutcome) -> &'static str { match o { ScaleOutcome::Scaled => "scaled", ScaleOutcome::Fixed => "fixed", ScaleOutcome::NoQuantity => "noQuantity", ScaleOutcome::Error(_) => "error" } }
fn scaled_data(r: &ScaledRecipe) -> String {
    match r.scaled() {
        Scaled::DefaultScaling => "default".into(),
        Scaled::Scaled(d) => format!("( scaled {} {} {} {} )", bits(d.target.factor()), recipe_sexp::list(&d.ingredients, |o| outcome(o).into()),
            recipe_sexp::list(&d.cookware, |o| outcome(o).into()), recipe_sexp::list(&d.timers, |o| outcome(o).into())),
    }
}

// ---------------------------------------------------------------- one recipe

struct Stats { what: &'static str, tainted: bool }
impl Stats {
    /// known finding F-C15-1: whatever the symptom, a failure on a recipe whose metadata is not JSON-representable has one signature
    fn sig(&self, s: &str) -> String { if self.tainted { "c15:metadata-not-json-representable".into() } else { s.into() } }
}

/// the metadata contains (recursively) a key that is not a string, or a tagged value: JSON cannot carry it
fn yaml_not_json(v: &serde_yaml::Value) -> bool {
    use serde_yaml::Value as Y;
    match v {
        Y::Mapping(m) => m.iter().any(|(k, v)| !k.is_string() || yaml_not_json(v)),
        Y::Sequence(s) => s.iter().any(yaml_not_json),
        Y::Tagged(_) => true,
        _ => false,
    }
}
fn meta_tainted(m: &serde_yaml::Mapping) -> bool { m.iter().any(|(k, v)| !k.is_string() || yaml_not_json(v)) }

/// byte range of `s` widened to char boundaries
fn cut(s: &str, mut a: usize, mut b: usize) -> &str {
    a = a.min(s.len()); b = b.min(s.len());
    while !s.is_char_boundary(a) { a -= 1; }
    while !s.is_char_boundary(b) { b += 1; }
    &s[a..b]
}

/// oracle + correspondence for one serializable value; `eq` compares the value read back with the original (None: compare JSON images only)
fn check_json<T: serde::Serialize + serde::de::DeserializeOwned>(ctx: &mut Ctx, st: &Stats, desc: &str, r: &T, finite: bool, op: Option<String>, eq: Option<&dyn Fn(&T, &T) -> bool>) {
    let js = match guarded(|| serde_json::to_string(r)) {
        Err(p) => { ctx.oracle_fail(desc.to_string(), format!("{}: serde_json::to_string panics: {p}", st.what), panic_signature(&p)); return; }
        Ok(Err(e)) => {
            ctx.count(&format!("{}:to_string-fails", st.what));
            if finite { ctx.oracle_fail(desc.to_string(), format!("{}: does not serialize to JSON: {e}", st.what), st.sig("c15:to_string")); }
            return;
        }
        Ok(Ok(js)) => js,
    };
    if let Some(op) = op {
        if finite {
            match canon_json(&js) { Ok(cj) => ctx.case(op, cj, true, desc.to_string()), Err(e) => ctx.oracle_fail(desc.to_string(), format!("harness cannot read the JSON text: {e}"), "c15:harness-json".into()) }
        }
    }
    let back = match guarded(|| serde_json::from_str::<T>(&js)) {
        Err(p) => { ctx.oracle_fail(desc.to_string(), format!("{}: serde_json::from_str panics: {p}", st.what), panic_signature(&p)); return; }
        Ok(Err(e)) => {
            ctx.count(&format!("{}:from_str-fails", st.what));
            if finite { ctx.oracle_fail(desc.to_string(), format!("{}: its own JSON does not deserialize: {e}; json {}", st.what, cut(&js, 0, 300)), st.sig("c15:from_str")); }
            return;
        }
        Ok(Ok(b)) => b,
    };
    if !finite { ctx.count(&format!("{}:nonfinite-roundtrips-anyway", st.what)); return; }
    if let Some(eq) = eq {
        if !eq(&back, r) { ctx.oracle_fail(desc.to_string(), format!("{}: deserialized recipe is not equal to the original; json {}", st.what, cut(&js, 0, 300)), st.sig("c15:not-equal")); return; }
    }
    match serde_json::to_string(&back) {
        Ok(js2) if js2 == js => {}
        Ok(js2) => { let k = js.bytes().zip(js2.bytes()).position(|(a, b)| a != b).unwrap_or(0); ctx.oracle_fail(desc.to_string(), format!("{}: re-serialization differs at byte {k}: {:?} vs {:?}", st.what, cut(&js, k.saturating_sub(30), k + 40), cut(&js2, k.saturating_sub(30), k + 40)), st.sig("c15:reserialize")); }
        Err(e) => ctx.oracle_fail(desc.to_string(), format!("{}: re-serialization fails: {e}", st.what), st.sig("c15:reserialize")),
    }
}

fn one(ctx: &mut Ctx, parser: &CooklangParser, rng: &mut Rng, input: &str) {
    let parse = |ctx: &mut Ctx| -> Option<ScalableRecipe> {
        match guarded(|| parser.parse(input).into_result()) {
            Ok(Ok((r, _))) => Some(r),
            Ok(Err(rep)) => {
                ctx.count("input:rejected");
                if let Some(e) = rep.errors().next() { let m: String = e.to_string().chars().take(36).collect(); ctx.count(&format!("input:rejected:{m}")); }
                None
            }
            Err(_) => { ctx.count("input:parser-panics(C03)"); None }
        }
    };
    let Some(r) = parse(ctx) else { return; };
    ctx.count("input:accepted");
    let desc = format!("{input:?}");
    let meta_sexp = kvs(&r.metadata.map);
    if !r.metadata.map.is_empty() { ctx.count("recipe:has-metadata"); }
    if r.metadata.map.values().any(|v| v.is_mapping() || v.is_sequence()) { ctx.count("recipe:nested-metadata"); }
    for i in &r.ingredients {
        if i.modifiers().bits() != 0 { ctx.count("ingredient:modifiers"); }
        if i.relation.references_to().is_some() { ctx.count(if i.relation.is_intermediate_reference() { "ingredient:intermediate-reference" } else { "ingredient:reference" }); }
        if i.reference.is_some() { ctx.count("ingredient:recipe-reference"); }
        match i.quantity.as_ref().map(|q| q.value()) {
            Some(ScalableValue::Linear(Value::Range { .. })) | Some(ScalableValue::Fixed(Value::Range { .. })) => ctx.count("value:range"),
            Some(ScalableValue::Linear(Value::Number(Number::Fraction { .. }))) | Some(ScalableValue::Fixed(Value::Number(Number::Fraction { .. }))) => ctx.count("value:fraction"),
            Some(ScalableValue::Linear(Value::Text(_))) | Some(ScalableValue::Fixed(Value::Text(_))) => ctx.count("value:text"),
            Some(_) => ctx.count("value:number"), None => ctx.count("value:none"),
        }
    }
    if !r.inline_quantities.is_empty() { ctx.count("recipe:inline-quantities"); }
    if r.servings().is_some() { ctx.count("recipe:servings"); }
    let fin = scalable_finite(&r);
    if !fin { ctx.count("recipe:non-finite"); }
    let tainted = meta_tainted(&r.metadata.map);
    if tainted { ctx.count("recipe:metadata-not-json-representable"); }
    let op = match &meta_sexp {
        Ok(m) => Some(format!("json scalable ( full {m} {} {} )", recipe_sexp::opt(r.servings(), |s| recipe_sexp::list(s, |n| n.to_string())), recipe_sexp::scalable_recipe(&r))),
        Err(e) => { if fin { ctx.oracle_fail(desc.clone(), format!("parsed metadata cannot be written as JSON: {e}"), "c15:metadata-not-json-representable".into()); } None }
    };
    // what a UI does before saving: read-only accessors (they must not change what equality or the JSON sees)
    if rng.chance(1, 2) {
        let conv = parser.converter();
        let _ = guarded(|| { let m = &r.metadata; let _ = (m.servings(), m.title(), m.tags(), m.time(conv), m.author(), m.source(), m.locale(), m.description()); let _ = r.servings(); });
        ctx.count("accessors-read-before-serialising");
    }
    check_json(ctx, &Stats { what: "scalable", tainted }, &desc, &r, fin, op, Some(&|a: &ScalableRecipe, b: &ScalableRecipe| a == b));

    // the model of `==` (Side/SerdeEq.lean, op `eq scalable`): the recipe against what is read back, and against near copies
    // (a number spelled as a fraction / as a decimal, another value, name, unit, lock, modifier, metadata value)
    {
        let full_of = |x: &ScalableRecipe| -> Option<String> {
            let m = kvs(&x.metadata.map).ok()?;
            Some(format!("( full {m} {} {} )", recipe_sexp::opt(x.servings(), |s| recipe_sexp::list(s, |n| n.to_string())), recipe_sexp::scalable_recipe(x)))
        };
        // (only for recipes inside the property's premise and the model's metadata class: finite numbers, JSON-representable metadata)
        if let Some(fa) = full_of(&r).filter(|_| fin && !tainted) {
            if let Ok(Ok(js)) = guarded(|| serde_json::to_string(&r)) {
                if let Ok(Ok(back)) = guarded(|| serde_json::from_str::<ScalableRecipe>(&js)) {
                    if let Some(fb) = full_of(&back) {
                        let e = back == r;
                        ctx.count(if e { "eq:read-back:true" } else { "eq:read-back:false" });
                        ctx.case(format!("eq scalable {fb} {fa}"), e.to_string(), true, format!("{desc}: read back == original"));
                    }
                }
            }
            const NEAR: &[(&str, &str)] = &[("1/2", "0.5"), ("1 1/2", "1.5"), ("3/4", "0.75"), ("0.5", "1/2"), ("2", "3"), ("flour", "flower"), ("%g", "%kg"), ("{1", "{=1"), ("@", "@?"), ("#", "#?"), ("min", "h"), ("(note", "(nota"), ("title:", "titel:"), (": x", ": y"), ("= ", "= X"), ("|alias", "|alia"), ("1", "1.0"), ("0", "0.0")];
            let k = rng.below(NEAR.len());
            for j in 0..NEAR.len() {
                let (from, to) = NEAR[(k + j) % NEAR.len()];
                let Some(pos) = input.rfind(from) else { continue };
                let near = format!("{}{}{}", &input[..pos], to, &input[pos + from.len()..]);
                if let Ok(Ok((r2, _))) = guarded(|| parser.parse(&near).into_result()) {
                    if let Some(fb) = full_of(&r2).filter(|_| scalable_finite(&r2) && !meta_tainted(&r2.metadata.map)) {
                        let e = r2 == r;
                        ctx.count(if e { "eq:near-copy:true" } else { "eq:near-copy:false" });
                        ctx.case(format!("eq scalable {fb} {fa}"), e.to_string(), true, format!("{desc} == {near:?}"));
                    }
                }
                break;
            }
        }
    }
    // scaled / converted variants (ScalableRecipe is not Clone: parse again)
    // "arbitrary factors": zero and negative ones are accepted by scale() and give finite recipes
    let factor = match rng.below(9) { 0 => 1.0, 1 => 2.0, 2 => 0.5, 3 => 1.0 / 3.0, 4 => 0.0, 5 => -1.5, 6 => -(rng.unit_f64() * 3.0 * 100.0).round() / 100.0, _ => (rng.unit_f64() * 6.0 * 1000.0).round() / 1000.0 };
    let servings_target = *rng.pick(&[3u32, 3, 3, 0, 1, 12]);
    let variants: Vec<(&'static str, Box<dyn Fn(ScalableRecipe) -> ScaledRecipe + '_>)> = vec![
        ("default_scale", Box::new(|r| r.default_scale())),
        ("scale", Box::new(move |r| r.scale(factor, parser.converter()))),
        ("scale_to_servings", Box::new(move |r| r.scale_to_servings(servings_target, parser.converter()))),
        ("scale+metric", Box::new(move |r| { let mut s = r.scale(factor, parser.converter()); let _ = s.convert(System::Metric, parser.converter()); s })),
        ("default+imperial", Box::new(|r| { let mut s = r.default_scale(); let _ = s.convert(System::Imperial, parser.converter()); s })),
    ];
    for (name, f) in variants {
        let Some(r) = parse(ctx) else { return; };
        let s = match guarded(|| f(r)) { Ok(s) => s, Err(_) => { ctx.count("scale/convert-panics(C03/C08/C09)"); continue; } };
        let fin = scaled_finite(&s);
        if !fin { ctx.count("scaled:non-finite"); }
        if s.scaled_data().is_some_and(|d| d.ingredients.iter().chain(&d.cookware).chain(&d.timers).any(|o| matches!(o, ScaleOutcome::Error(_)))) { ctx.count("scaled:error-outcome"); }
        if s.ingredients.iter().any(|i| matches!(i.quantity.as_ref().map(|q| q.value()), Some(Value::Number(Number::Fraction { .. })))) { ctx.count("scaled:fraction"); }
        let op = meta_sexp.as_ref().ok().map(|m| format!("json scaled ( full {m} {} {} )", scaled_data(&s), recipe_sexp::scaled_recipe(&s)));
        let d = format!("{input:?} after {name} (factor {factor})");
        check_json(ctx, &Stats { what: "scaled", tainted }, &d, &s, fin, op, None);
    }
}

// ---------------------------------------------------------------- generators

const YAML_SCALARS: &[&str] = &["x", "\"quoted é\"", "2", "-3", "1.5", "1e3", "true", "false", "null", "~", "2024-01-01", "0x10", "\"\"", "'a: b'", "1_000", "-0.0", "18446744073709551615", "0.1", "3 min", "[a, b, 3]", "{k: v, n: 2}", "[]", "{}", "4|2|8", "[6, 3]", "12|6", "2|4"];
const YAML_KEYS: &[&str] = &["title", "servings", "tags", "time", "prep time", "cook time", "author", "source", "note", "é key", "a b", "\"1\"", "type", "map", "locale", "difficulty", "description"];

fn yaml_value(rng: &mut Rng, depth: usize, indent: usize) -> String {
    match if depth == 0 { 0 } else { rng.below(5) } {
        3 => { let n = 1 + rng.below(3); (0..n).map(|_| format!("\n{}- {}", " ".repeat(indent), rng.pick(YAML_SCALARS))).collect() }
        4 => { let n = 1 + rng.below(3); (0..n).map(|i| format!("\n{}k{i}: {}", " ".repeat(indent), yaml_value(rng, depth - 1, indent + 2))).collect() }
        _ => rng.pick(YAML_SCALARS).to_string(),
    }
}
fn frontmatter(rng: &mut Rng, odd_keys: bool) -> String {
    let mut s = String::from("---\n");
    let n = rng.below(5);
    let mut used = vec![];
    for _ in 0..n {
        let k = *rng.pick(YAML_KEYS);
        if used.contains(&k) { continue; }
        used.push(k);
        let v = match k { "servings" => rng.pick(&["2", "4", "2|4", "[2, 4]", "many", "4|2|8", "[6, 3]", "12|6", "8|4|2|1"]).to_string(), "time" => rng.pick(&["10 min", "1h", "90", "{prep: 10 min, cook: 1 h}"]).to_string(), _ => yaml_value(rng, 2, 2) };
        s.push_str(&format!("{k}:{}{v}\n", if v.starts_with('\n') { "" } else { " " }));
    }
    if odd_keys { s.push_str(rng.pick_str(&["1: x\n", "true: y\n", "1.5: z\n", "~: n\n", "? [a, b]\n: c\n", "t: !tag v\n", "n: {1: 2}\n", "s: [{2: 3}]\n", "1: a\n\"1\": b\n", "i: .inf\n", "n: .nan\n"])); }
    s.push_str("---\n");
    s
}

// (texts that need escaping in JSON — a double quote, the inch symbol `"` of the bundled units, a tab, U+2028 — occur in every
// string position: names, units, text values, notes, section names, step text)
const NAMES: &[&str] = &["flour", "sea salt", "olive oil", "é", "./dough", "egg", "\"odd\" salt", "tab\tsalt"];
const UNITS: &[&str] = &["g", "kg", "ml", "l", "cup", "cups", "tsp", "tbsp", "oz", "lb", "°C", "min", "h", "pinch", "F", "C", "in", "\"", "\" strips", "a\u{2028}b"];
const VALUES: &[&str] = &["1", "2", "200", "0.5", "1.5", "1/2", "1 1/2", "3/4", "2-3", "1/2-3/4", "0.1", "10.25", "7/3", "a few", "a \"few\"", "0", "1000000", "1 1/3", "4-2", "3-3", "1 1/2-1/2"];
/// what has been written so far (references must have a target)
#[derive(Default)]
struct GenState { defined: Vec<&'static str>, cookware: Vec<&'static str>, steps_in_section: usize, finished_sections: usize }

fn component(rng: &mut Rng, st: &mut GenState) -> String {
    let q = |rng: &mut Rng| -> String {
        let lock = if rng.chance(1, 8) { "=" } else { "" };
        match rng.below(6) { 0 => String::new(), 1 => format!("{lock}{}", rng.pick(VALUES)), 2 => format!("{lock}{} {}", rng.pick(VALUES), rng.pick(UNITS)), _ => format!("{lock}{}%{}", rng.pick(VALUES), rng.pick(UNITS)) }
    };
    match rng.below(8) {
        0..=4 => {
            let n: &'static str = *rng.pick(NAMES);
            let plain = n.trim_start_matches("./");
            // intermediate references
            if rng.chance(1, 8) {
                let m = match rng.below(4) {
                    0 if st.steps_in_section >= 1 => "&(~1)", 1 if st.steps_in_section >= 1 => "&(1)",
                    2 if st.finished_sections >= 1 => "&(=1)", 3 if st.finished_sections >= 1 => "&(=~1)", _ => "",
                };
                if !m.is_empty() { return format!("@{m}{}{{{}}}", rng.pick(&["dough", "mix", "it"]), q(rng)); }
            }
            let is_ref = st.defined.contains(&plain) && rng.chance(1, 3);
            let m = if is_ref { "&" } else { *rng.pick(&["", "", "", "?", "-", "@", "+", "-?"]) };
            let n = if m == "@" { plain } else { n };
            let al = if rng.chance(1, 6) { "|alias" } else { "" };
            let note = if !is_ref && rng.chance(1, 5) { *rng.pick(&["(note é)", "(6\" tin)", "(a\tb)"]) } else { "" };
            if !is_ref && !st.defined.contains(&plain) { st.defined.push(plain); }
            format!("@{m}{n}{al}{{{}}}{note}", q(rng))
        }
        5 => {
            let n: &'static str = *rng.pick(&["pan", "big pot", "bowl", "9\" tin"]);
            let is_ref = st.cookware.contains(&n) && rng.chance(1, 3);
            if !is_ref && !st.cookware.contains(&n) { st.cookware.push(n); }
            format!("#{}{n}{{{}}}", if is_ref { "&" } else { *rng.pick(&["", "", "?", "-"]) }, rng.pick(&["", "2", "1-2", "big"]))
        }
        _ => format!("~{}{{{}%{}}}", rng.pick(&["", "rest", "bake"]), rng.pick(&["1", "2", "0.5", "1/2", "1 1/2", "2-3", "10.25", "90"]), rng.pick(&["min", "h", "s", "minutes"])),
    }
}
fn gen_recipe(rng: &mut Rng, odd_keys: bool) -> String {
    let mut s = String::new();
    let mut st = GenState::default();
    if rng.chance(2, 3) || odd_keys { s.push_str(&frontmatter(rng, odd_keys)); }
    let nb = 1 + rng.below(6);
    let mut section_has_content = false;
    for _ in 0..nb {
        match rng.below(8) {
            0 => {
                s.push_str(&format!("= {}\n\n", rng.pick(&["Dough", "Filling", "", "The \"Dough\""])));
                if section_has_content { st.finished_sections += 1; }
                st.steps_in_section = 0; section_has_content = false;
            }
            1 => { s.push_str("> a note with 2 cups of text\n\n"); section_has_content = true; }
            _ => {
                let n = 1 + rng.below(4);
                s.push_str(rng.pick_str(&["Mix ", "Add ", "", "Bake 200 g at 180 °C ", "Line the 9\" tin, \"gently\" "]));
                for _ in 0..n { s.push_str(&component(rng, &mut st)); s.push_str(rng.pick_str(&[" and ", " ", ", then ", "\n"])); }
                s.push_str("\n\n");
                st.steps_in_section += 1; section_has_content = true;
            }
        }
    }
    s
}

pub fn run(ctx: &mut Ctx) {
    ctx.rule = "structured recipes for the extended parser (front matter with nested YAML, numbers, null, booleans, sequences; sections, text blocks, ingredients with \
all modifiers, aliases, notes, recipe and intermediate references, fractions, ranges, text values, locks, cookware, timers, inline quantities) plus the shared recipe \
generator; each accepted recipe is checked as parsed (ScalableRecipe) and after default_scale / scale(random factor) / scale_to_servings / convert to metric and imperial \
(ScaledRecipe); a separate stream has non-string YAML keys, YAML tags and non-finite numbers (400-digit literals, .inf, .nan, infinite and NaN factors) where only \
'does not panic' is required unless the parser accepts it with finite numbers; non-trivial = every compared case; distinct = distinct request lines".into();
    let parser = CooklangParser::extended();
    let mut rng = Rng::new(ctx.seed ^ 0xC15);
    for line in crate::corpus::load("C15") { one(ctx, &parser, &mut rng, &line); }
    for t in ["", "@a{1%g}", "---\ntitle: x\nservings: 2|4\n---\n@a{1|2%g} ~{3%min} #pan", ">> description: desc\n>> time: 3 min\n\nA step with @ingredients{}. References to @&ingredients{}, #cookware,\n~timers{3%min}.\n",
              "@flour{1/3%cup} @milk{2-3%l} then @&flour{1%cup}\n\n@&(~1)dough{} @&(=1)x{}\n\n= S\n\n@&(=~1)sec{}", "@./sub/recipe{1} @?opt{} @-hidden{} @+new{} @@rec{}", "text 200 g and 3 cups"] {
        one(ctx, &parser, &mut rng, t);
    }
    let n = if ctx.thorough { 80_000 } else { 4_000 };
    for i in 0..n {
        let src = if i % 10 == 9 { crate::gen::recipe(&mut rng) } else { gen_recipe(&mut rng, false) };
        one(ctx, &parser, &mut rng, &src);
    }
    // separate stream: keys/tags that JSON cannot carry, non-finite numbers
    let big = "9".repeat(400);
    for i in 0..(if ctx.thorough { 6_000 } else { 600 }) {
        let mut src = gen_recipe(&mut rng, i % 2 == 0);
        if i % 2 == 1 { src.push_str(&format!("@x{{{big}%g}} @y{{{big}/2}} ~{{{big}.5%min}} and 1e999 kg\n")); }
        one(ctx, &parser, &mut rng, &src);
    }
    for f in [f64::INFINITY, f64::NEG_INFINITY, f64::NAN, f64::MAX, 1e308] {
        for t in ["@a{2%kg} #p{2} ~{3%min}", "@a{1/2%cup} @b{1e308%g}"] {
            if let Ok(Ok((r, _))) = guarded(|| parser.parse(t).into_result()) {
                if let Ok(s) = guarded(|| r.scale(f, parser.converter())) {
                    let fin = scaled_finite(&s);
                    ctx.count(if fin { "factor:extreme-but-finite" } else { "scaled:non-finite" });
                    let op = fin.then(|| format!("json scaled ( full ( ) {} {} )", scaled_data(&s), recipe_sexp::scaled_recipe(&s)));
                    check_json(ctx, &Stats { what: "scaled", tainted: false }, &format!("{t:?} scaled by {f:?}"), &s, fin, op, None);
                }
            }
        }
    }
}
