//! C03 No input makes a public entry point panic, overflow or hang.
//! The implementation runs in worker subprocesses (`harness c03worker …`): each case is wrapped in
//! catch_unwind, the parent enforces a per-case watchdog through the worker's progress lines, and a
//! worker that aborts (stack overflow, allocation failure) or hangs is killed and restarted after the
//! offending case, so that a hang or an abort is attributed to one input.
use crate::ctx::Ctx;
use crate::gen;
use crate::rng::Rng;
use crate::util::{guarded, panic_signature};
use cooklang::convert::System;
use cooklang::{Converter, CooklangParser, Extensions};
use std::io::{BufRead, BufReader, Write};
use std::process::{Command, Stdio};
use std::sync::mpsc;
use std::time::Duration;

/// run every public entry point and consumer on one input; returns the panics (entry point, info)
pub fn exercise(input: &str, ext_bits: u32) -> Vec<(String, String)> {
    let mut bad: Vec<(String, String)> = Vec::new();
    let ext = Extensions::from_bits_retain(ext_bits);
    macro_rules! g { ($name:expr, $e:expr) => { match guarded(|| $e) { Ok(v) => Some(v), Err(p) => { bad.push(($name.to_string(), p)); None } } } }
    g!("PullParser::collect", cooklang::parser::PullParser::new(input, ext).collect::<Vec<_>>());
    g!("PullParser::into_meta_iter", cooklang::parser::PullParser::new(input, ext).into_meta_iter().collect::<Vec<_>>());
    g!("build_ast", { let r = cooklang::ast::build_ast(cooklang::parser::PullParser::new(input, ext)); let _ = serde_json::to_string(&r.output()); });
    let aisle = cooklang::aisle::parse("[dairy]\nmilk|whole milk\nbutter\n[pantry]\nflour\nsalt|sea salt\n").ok();
    for (ci, conv) in [Converter::empty(), Converter::bundled()].into_iter().enumerate() {
        let parser = CooklangParser::new(ext, conv);
        let tag = |s: &str| format!("{s}[conv={ci}]");
        g!(tag("parse_metadata"), { let m = parser.parse_metadata(input); let mut buf = Vec::new(); let _ = m.report().write("r", input, false, &mut buf); });
        g!(tag("parse_with_options"), {
            let opts = || cooklang::analysis::ParseOptions {
                recipe_ref_check: Some(Box::new(|name: &str| if name.contains('a') { cooklang::analysis::CheckResult::Error(vec!["no such recipe".into()]) } else { cooklang::analysis::CheckResult::Warning(vec![]) })),
                metadata_validator: Some(Box::new(|k: &serde_yaml::Value, _v: &serde_yaml::Value, o: &mut cooklang::analysis::CheckOptions| {
                    let ks = k.as_str().unwrap_or("");
                    if ks.starts_with('t') { o.run_std_checks(false); }
                    if ks.contains('e') { o.include(false); cooklang::analysis::CheckResult::Error(vec!["rejected".into()]) } else { cooklang::analysis::CheckResult::Warning(vec!["w".into()]) }
                })),
            };
            let r = parser.parse_with_options(input, opts()); let mut buf = Vec::new(); let _ = r.report().write("r", input, false, &mut buf);
            let m = parser.parse_metadata_with_options(input, opts()); let _ = m.report().write("r", input, true, &mut buf);
        });
        let Some(res) = g!(tag("parse"), parser.parse(input)) else { continue };
        g!(tag("report.write"), { for color in [false, true] { let mut buf = Vec::new(); let _ = res.report().write("r.cook", input, color, &mut buf); } });
        let Some(recipe) = res.output() else { continue };
        let conv = parser.converter();
        g!(tag("metadata accessors"), { let m = &recipe.metadata; let _ = (m.title(), m.description(), m.tags(), m.author(), m.source(), m.time(conv).map(|t| t.total()), m.servings(), m.locale()); let _ = m.map_filtered().count(); });
        g!(tag("serde_json(scalable)"), serde_json::to_string(recipe).map(|s| s.len()).unwrap_or(0));
        let mut scaled_all = Vec::new();
        if let Some(Some(s)) = g!(tag("default_scale"), parser.parse(input).into_output().map(|r| r.default_scale())) { scaled_all.push(s); }
        for f in [0.5f64, 1.0, 3.0, 1e-300, 1e300] { if let Some(Some(s)) = g!(tag(&format!("scale({f:e})")), parser.parse(input).into_output().map(|r| r.scale(f, conv))) { scaled_all.push(s); } }
        for n in [1u32, 7, u32::MAX] { if let Some(Some(s)) = g!(tag(&format!("scale_to_servings({n})")), parser.parse(input).into_output().map(|r| r.scale_to_servings(n, conv))) { scaled_all.push(s); } }
        for (si, s) in scaled_all.iter_mut().enumerate() {
            if si > 2 && si != 5 { continue; } // consumers on default, 0.5, 1.0 and 1e300
            g!(tag("serde_json(scaled)"), serde_json::to_string(&*s).map(|x| x.len()).unwrap_or(0));
            g!(tag("group_ingredients"), s.group_ingredients(conv).len());
            g!(tag("group_cookware"), s.group_cookware().len());
            g!(tag("IngredientList"), { let l = cooklang::ingredient_list::IngredientList::from_recipe(s, conv); let n = l.iter().count(); if let Some(a) = &aisle { let c = l.categorize(a); let _ = c.iter().count(); } n });
            for sys in [System::Metric, System::Imperial] { g!(tag(&format!("convert({sys:?})")), s.convert(sys, conv).len()); g!(tag("group_ingredients(after convert)"), s.group_ingredients(conv).len()); }
        }
    }
    bad
}

fn stress(rng: &mut Rng, thorough: bool) -> Vec<String> {
    let n = if thorough { 20_000 } else { 4_000 };
    let mut v = Vec::new();
    for unit in ["(", "@a{", "[-", "&(", "@&(~1)", "{", "}", "\\", ">>", "= ", "@a{1%g}(", "|", "%", "1/", "---\n", "\r", "é", "@a|", "~{", "@@@@", "1 1/2 - ", "[- -]"] { v.push(unit.repeat(n / unit.len().max(1))); }
    v.push(format!("@a{{{}}}", "9".repeat(400)));
    v.push(format!("@a{{{}.{}%g}}", "9".repeat(400), "9".repeat(400)));
    v.push(format!("@a{{1/{}}}", "9".repeat(30)));
    v.push(format!(">> time: {}h", "9".repeat(30)));
    v.push(format!("---\nservings: {}\ntime: {}\n---\n", "9".repeat(30), "1e999"));
    v.push(format!("Add {} cups", "9".repeat(400)));
    v.push("---\ntime:\n  prep: 4294967295\n  cook: 1\n---\n".to_string());
    v.push(">> prep time: 4294967295\n>> cook time: 4294967295\n".to_string());
    v.push(">> time: 71582789h\n".to_string());
    v.push("---\nservings: 0\n---\nAdd @water{1500%ml} and @salt{1/2%tsp}.\n".to_string());
    v.push(">> servings: 0|2|4\n\nAdd @water{1500%ml}.\n".to_string());
    v.push("---\nservings: [4294967295, 4294967296]\ntime: 71582788h59m\n---\n".to_string());
    for _ in 0..4 { let mut s = String::new(); for _ in 0..(n / 8) { s.push_str(gen::ALPHABET[rng.below(gen::ALPHABET.len())]); } v.push(s); }
    v
}

pub fn worker(case_file: &str, start: usize) {
    let data = std::fs::read_to_string(case_file).expect("case file");
    let out = std::io::stdout();
    for (idx, line) in data.lines().enumerate().skip(start) {
        let Some((e, enc)) = line.split_once(' ') else { continue };
        let ext: u32 = e.parse().unwrap_or(0);
        let input: String = if enc == "-" { String::new() } else { enc.split(',').filter_map(|c| c.parse::<u32>().ok().and_then(char::from_u32)).collect() };
        { let mut o = out.lock(); let _ = writeln!(o, "S {idx}"); let _ = o.flush(); }
        let bad = exercise(&input, ext);
        let mut o = out.lock();
        for (entry, p) in bad { let _ = writeln!(o, "P {idx} {}\u{1}{}", entry, p.replace('\n', " ")); }
        let _ = writeln!(o, "D {idx}"); let _ = o.flush();
    }
}

pub fn run(ctx: &mut Ctx) {
    ctx.rule = "inputs: corpus, every string of <=2 (quick) / <=3 (thorough) symbols of the 47-symbol token alphabet, token soups, structured recipes with mutations, well-formed recipes, a stress family (long repetitions of nesting/marker tokens, 400-digit numbers, huge metadata values); all 256 extension patterns round-robin; per input, in worker subprocesses under catch_unwind and a 45 s watchdog: PullParser (events, metadata iterator), build_ast, parse_metadata, parse, SourceReport::write (plain/colour), metadata accessors, serde_json of the recipe, default_scale, scale with 5 factors, scale_to_servings, group_ingredients, group_cookware, IngredientList + categorize, convert to both systems; with the empty and the bundled converter. The parse of every input is also compared with the model's panic flag. distinct = distinct request lines".into();
    let mut rng = Rng::new(ctx.seed ^ 0xC03);
    let mut cases: Vec<(String, u32)> = Vec::new();
    {
        let mut sink = |_: &mut Ctx, s: &str, e: u32| cases.push((s.to_string(), e));
        crate::props::c04::inputs(ctx, 0xC03, &mut sink);
    }
    let w = if ctx.thorough { 20_000 } else { 600 };
    for i in 0..w { let r = crate::wf::generate(&mut rng, i % 2 == 1); cases.push((crate::wf::spell(&r, &crate::wf::Style::plain()), if i % 2 == 1 { 0xEEA } else { 0 })); }
    let stress_from = cases.len();
    for s in stress(&mut rng, ctx.thorough) { cases.push((s.clone(), 0xEEA)); cases.push((s, 0)); }
    let root = std::env::var("VERIF_ROOT").unwrap_or_else(|_| "/verif".into());
    let _ = std::fs::create_dir_all(format!("{root}/logs"));
    let nworkers = std::thread::available_parallelism().map(|n| n.get()).unwrap_or(8).min(16);
    let exe = std::env::current_exe().expect("exe");
    let chunk = (cases.len() + nworkers - 1) / nworkers;
    let (tx, rx) = mpsc::channel::<(usize, String, String, String)>(); // (case idx, kind, entry, info)
    std::thread::scope(|sc| {
        for w in 0..nworkers {
            let lo = w * chunk; let hi = ((w + 1) * chunk).min(cases.len());
            if lo >= hi { continue; }
            let file = format!("{root}/logs/c03.cases.{w}.txt");
            let body: String = cases[lo..hi].iter().map(|(s, e)| format!("{e} {}\n", crate::util::enc_text(s))).collect();
            std::fs::write(&file, body).expect("write case file");
            let tx = tx.clone(); let exe = exe.clone();
            sc.spawn(move || {
                let total = hi - lo;
                let mut next = 0usize;
                while next < total {
                    let mut child = Command::new(&exe).arg("c03worker").arg(&file).arg(next.to_string()).stdout(Stdio::piped()).stderr(Stdio::null()).spawn().expect("spawn worker");
                    let stdout = child.stdout.take().unwrap();
                    let (ltx, lrx) = mpsc::channel::<String>();
                    let reader = std::thread::spawn(move || { for l in BufReader::new(stdout).lines().map_while(Result::ok) { if ltx.send(l).is_err() { break; } } });
                    let mut current: Option<usize> = None;
                    let mut finished = false;
                    loop {
                        match lrx.recv_timeout(Duration::from_secs(45)) {
                            Ok(l) => {
                                if let Some(i) = l.strip_prefix("S ") { current = i.parse().ok(); }
                                else if let Some(i) = l.strip_prefix("D ") { if let Ok(i) = i.parse::<usize>() { next = i + 1; current = None; } }
                                else if let Some(r) = l.strip_prefix("P ") { if let Some((i, rest)) = r.split_once(' ') { let (entry, info) = rest.split_once('\u{1}').unwrap_or((rest, "")); let _ = tx.send((lo + i.parse::<usize>().unwrap_or(0), "panic".into(), entry.into(), info.into())); } }
                            }
                            Err(mpsc::RecvTimeoutError::Timeout) => {
                                let _ = child.kill();
                                if let Some(i) = current { let _ = tx.send((lo + i, "hang".into(), "?".into(), "no progress for 45 s".into())); next = i + 1; } else { next += 1; }
                                break;
                            }
                            Err(mpsc::RecvTimeoutError::Disconnected) => {
                                let st = child.wait().ok();
                                if let Some(i) = current { let _ = tx.send((lo + i, "abort".into(), "?".into(), format!("worker died: {st:?}"))); next = i + 1; }
                                else if next >= total || st.map(|s| s.success()).unwrap_or(false) { finished = true; }
                                else { next += 1; }
                                break;
                            }
                        }
                    }
                    let _ = child.wait();
                    let _ = reader.join();
                    if finished { break; }
                }
                let _ = std::fs::remove_file(&file);
            });
        }
        drop(tx);
    });
    let mut poisoned = std::collections::HashSet::new();
    for (idx, kind, entry, info) in rx.iter() {
        let (s, e) = &cases[idx];
        let shown: String = if s.len() > 300 { format!("{}… ({} bytes)", s.chars().take(120).collect::<String>(), s.len()) } else { s.clone() };
        let desc = format!("{entry} ext={e} input={shown:?}");
        match kind.as_str() {
            "panic" => { ctx.count(&format!("panic:{entry}")); ctx.oracle_fail(desc, format!("{entry} panicked: {info}"), panic_signature(&info)); }
            "hang" => { poisoned.insert(idx); ctx.oracle_fail(desc, "no progress for 45 s (non-termination or pathological time)".into(), "c03:hang".into()); }
            _ => { poisoned.insert(idx); ctx.oracle_fail(desc, format!("the process died on this input: {info}"), "c03:abort".into()); }
        }
    }
    ctx.count_n("cases-run-in-workers", cases.len() as u64);
    ctx.count_n("stress-cases", (cases.len() - stress_from) as u64);
    // correspondence of the panic flag (and the whole result) with the model, skipping inputs that killed a worker
    for (idx, (s, e)) in cases.iter().enumerate() {
        if poisoned.contains(&idx) || s.len() > 2000 { ctx.eval(s, true); continue; }
        let _ = crate::props::c06::recipe_case(ctx, s, *e, (idx % 2) as u8);
        // the model's `buildAst` (the subject of the build_ast no-panic theorems) against `build_ast` of the code
        crate::props::c04::ast_case(ctx, s, *e, &format!("ext={e} input={s:?}"));
    }
}
