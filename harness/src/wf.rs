//! Well-formed recipes: an abstract recipe, spellings of it with style choices, and the expected parse
//! result computed directly from the abstract recipe (independent of parser and model).
use crate::rng::Rng;

pub const M_RECIPE: u32 = 1;
pub const M_REF: u32 = 2;
pub const M_HIDDEN: u32 = 4;
pub const M_OPT: u32 = 8;
pub const M_NEW: u32 = 16;

#[derive(Clone, Debug, PartialEq)]
pub enum Num { Regular(f64, String), Frac { whole: u32, num: u32, den: u32 } }

#[derive(Clone, Debug, PartialEq)]
pub enum Val { Num(Num), Range(Num, Num), Text(String) }

#[derive(Clone, Copy, Debug, PartialEq, Eq)]
pub enum Kind { Ingredient, Cookware, Timer }

#[derive(Clone, Debug)]
pub struct Qty { pub val: Val, pub unit: Option<String>, pub lock: bool }

#[derive(Clone, Debug)]
pub struct Comp {
    pub kind: Kind,
    pub name: String,            // "" only for timers
    pub alias: Option<String>,
    pub mods: u32,               // written modifiers (REF included when `&` is written)
    pub inter: Option<(bool, bool, u32)>, // (relative, section, value)
    pub qty: Option<Qty>,
    pub note: Option<String>,
    pub braces: bool,            // spelled with {} (always when multi-word, quantity present, or empty name)
}

#[derive(Clone, Debug)]
pub enum Item { Text(String), Comp(Comp), /// a line break directly between two components: spelled as a newline, read as one space
    SoftBreak }

#[derive(Clone, Debug)]
pub enum Block { Step(Vec<Item>), Text(Vec<String>), Meta(String, String), Section(Option<String>),
    /// `>> [mode]: components`, a block that only lists components (one per line), `>> [mode]: all` (extended dialect):
    /// the components are defined but no step is added and step numbering is not affected
    Components(Vec<Comp>),
    /// `>> [key]: value` with key `mode` / `define` / `duplicate` (extended dialect): a mode switch, not a metadata entry.
    /// `[mode]: text` .. `[mode]: all` makes the steps between them text paragraphs; `[mode]: steps` makes every component
    /// (without `+`) a reference; `[duplicate]: ref` makes a component whose name was defined before a reference
    Switch(String, String) }

#[derive(Clone, Debug)]
pub struct WfRecipe { pub front: Option<Vec<(String, String)>>, pub blocks: Vec<Block>, pub extended: bool }

const NAMES: &[&str] = &["flour", "salt", "olive oil", "Crème fraîche", "ñame", "egg", "water", "sea salt", "1st press oil", "pan", "large pot", "wooden spoon", "jalapeño", "😀 sauce", "butter"];
const WORDS: &[&str] = &["Mix", "the", "and", "then", "add", "until", "golden", "slowly", "with", "a", "into", "stir", "well", "é", "ok"];
const UNITS: &[&str] = &["g", "kg", "ml", "l", "cups", "tsp", "pinch", "cloves", "oz"];
const TIME_UNITS: &[&str] = &["min", "minutes", "h", "hours", "s", "minute"];
const TEXT_VALS: &[&str] = &["a pinch", "some", "to taste", "a few", "2 heaped", "1 large", "3 or so", "1 1/2 cups", "2 1/2 heaped spoons", "1/2 cup", "1 1/2 - 2 or so", "2-3 large", "1.5 extra", "1 1/2-inch pieces"];
const NOTES: &[&str] = &["chopped", "room temperature", "finely diced é"];

fn num(rng: &mut Rng, extended: bool) -> Num {
    let _ = extended;
    match rng.below(6) {
        0 => Num::Frac { whole: 0, num: 1 + rng.below(3) as u32, den: 4 + rng.below(5) as u32 },
        1 => Num::Frac { whole: 1 + rng.below(3) as u32, num: 1, den: 2 + rng.below(3) as u32 },
        2 => { let s = format!("{}.{}", rng.below(20), 1 + rng.below(99)); Num::Regular(s.parse().unwrap(), s) }
        3 => { let s = format!(".{}", 1 + rng.below(9)); Num::Regular(s.parse().unwrap(), s) }
        _ => { let s = format!("{}", 1 + rng.below(500)); Num::Regular(s.parse().unwrap(), s) }
    }
}

fn value(rng: &mut Rng, extended: bool, allow_text: bool) -> Val {
    match rng.below(8) {
        0 if allow_text => Val::Text(rng.pick_str(TEXT_VALS).to_string()),
        1 if extended => Val::Range(num(rng, extended), num(rng, extended)),
        _ => Val::Num(num(rng, extended)),
    }
}

struct Defs { ingredients: Vec<(String, u32, bool /*is ref*/, Option<bool> /*qty is text*/, Option<String> /*unit*/)>, cookware: Vec<(String, u32, bool, Option<bool>)> }

fn fold(s: &str) -> String { s.to_lowercase() }

pub fn generate(rng: &mut Rng, extended: bool) -> WfRecipe {
    let mut blocks = Vec::new();
    let mut defs = Defs { ingredients: vec![], cookware: vec![] };
    let front = if rng.chance(1, 5) { Some(vec![("title".to_string(), "Test é".to_string()), ("source".to_string(), "book".to_string())]) } else { None };
    let nblocks = 1 + rng.below(6);
    let mut steps_in_section = 0u32;
    let mut sections_done = 0u32; // finished (pushed) sections
    let mut section_has_content = false;
    let mut any_content_or_name = false;
    for _ in 0..nblocks {
        match rng.below(10) {
            0 if front.is_none() => blocks.push(Block::Meta(rng.pick_str(&["source", "author", "note key", "cuisine"]).to_string(), rng.pick_str(&["grandma", "Ann", "x y z", "é"]).to_string())),
            1 => {
                let name = if rng.chance(3, 4) { Some(rng.pick_str(&["Sauce", "Dough", "For the filling", "Énd"]).to_string()) } else { None };
                if section_has_content || any_content_or_name { sections_done += 1; }
                // a section event pushes the previous one only when it is non-empty (name or content)
                any_content_or_name = name.is_some();
                section_has_content = false;
                steps_in_section = 0;
                blocks.push(Block::Section(name));
            }
            3 if extended && rng.chance(1, 2) => {
                // names from pools of their own: nothing else defines or references them
                let n = 1 + rng.below(3);
                let mut cs = Vec::new();
                for _ in 0..n {
                    if rng.chance(1, 4) {
                        cs.push(Comp { kind: Kind::Cookware, name: rng.pick_str(&["tray", "cake tin"]).to_string(), alias: None, mods: 0, inter: None, qty: None, note: None, braces: true });
                    } else {
                        let qty = if rng.chance(1, 2) { Some(Qty { val: Val::Num(num(rng, extended)), unit: if rng.chance(1, 2) { Some(rng.pick_str(UNITS).to_string()) } else { None }, lock: false }) } else { None };
                        cs.push(Comp { kind: Kind::Ingredient, name: rng.pick_str(&["stock", "dry yeast", "Öl"]).to_string(), alias: None, mods: 0, inter: None, qty, note: None, braces: true });
                    }
                }
                blocks.push(Block::Components(cs));
            }
            2 => { blocks.push(Block::Text(vec![rng.pick_str(&["A note for the cook.", "Serve warm", "Étape finale"]).to_string()])); section_has_content = true; }
            4 if extended && rng.chance(1, 2) => {
                // a region between two mode switches; the modes are back to the defaults afterwards
                let cands: Vec<usize> = (0..defs.ingredients.len()).filter(|&i| !defs.ingredients[i].2).collect();
                match rng.below(3) {
                    0 => {
                        // text mode: steps made of words only become text paragraphs (no step, no number)
                        blocks.push(Block::Switch(rng.pick_str(&["mode", "define"]).to_string(), "text".to_string()));
                        for _ in 0..1 + rng.below(2) {
                            blocks.push(Block::Step(vec![Item::Text(rng.pick_str(&["Rest well.", "Let it cool é", "Wait until golden and stir slowly."]).to_string())]));
                        }
                        blocks.push(Block::Switch("mode".to_string(), rng.pick_str(&["all", "default"]).to_string()));
                        section_has_content = true;
                    }
                    1 if !cands.is_empty() => {
                        // steps mode: a component written without `&` is a reference to the last earlier definition
                        let d = cands[rng.below(cands.len())];
                        let name = defs.ingredients[d].0.clone();
                        blocks.push(Block::Switch(rng.pick_str(&["mode", "define"]).to_string(), "steps".to_string()));
                        defs.ingredients.push((name.clone(), M_REF, true, None, None));
                        blocks.push(Block::Step(vec![Item::Text("Use ".to_string()),
                            Item::Comp(Comp { kind: Kind::Ingredient, name, alias: None, mods: 0, inter: None, qty: None, note: None, braces: true }),
                            Item::Text(" now.".to_string())]));
                        blocks.push(Block::Switch("mode".to_string(), rng.pick_str(&["all", "default"]).to_string()));
                        steps_in_section += 1;
                        section_has_content = true;
                    }
                    _ => {
                        // duplicate mode `reference`: the second occurrence of a name is a reference to the first
                        let name = rng.pick_str(&["lard", "rye flour"]).to_string();
                        let seen = (0..defs.ingredients.len()).any(|i| !defs.ingredients[i].2 && fold(&defs.ingredients[i].0) == fold(&name));
                        let q = |rng: &mut Rng| Some(Qty { val: Val::Num(Num::Regular(1.0 + rng.below(9) as f64, String::new())), unit: Some("g".to_string()), lock: false });
                        let fix = |q: Option<Qty>| q.map(|mut q| { if let Val::Num(Num::Regular(v, s)) = &mut q.val { *s = format!("{}", *v as u32); } q });
                        blocks.push(Block::Switch("duplicate".to_string(), rng.pick_str(&["ref", "reference"]).to_string()));
                        let q1 = fix(q(rng));
                        if seen { defs.ingredients.push((name.clone(), M_REF, true, None, None)); } else { defs.ingredients.push((name.clone(), 0, false, Some(false), Some("g".to_string()))); }
                        blocks.push(Block::Step(vec![Item::Text("Melt ".to_string()),
                            Item::Comp(Comp { kind: Kind::Ingredient, name: name.clone(), alias: None, mods: 0, inter: None, qty: q1, note: None, braces: true })]));
                        let q2 = if rng.chance(1, 2) { fix(q(rng)) } else { None };
                        defs.ingredients.push((name.clone(), M_REF, true, None, None));
                        blocks.push(Block::Step(vec![Item::Text("Add ".to_string()),
                            Item::Comp(Comp { kind: Kind::Ingredient, name, alias: None, mods: 0, inter: None, qty: q2, note: None, braces: true }),
                            Item::Text(" again.".to_string())]));
                        blocks.push(Block::Switch("duplicate".to_string(), rng.pick_str(&["new", "default"]).to_string()));
                        steps_in_section += 2;
                        section_has_content = true;
                    }
                }
            }
            _ => {
                let n = 1 + rng.below(5);
                let mut items: Vec<Item> = Vec::new();
                for _k in 0..n {
                    let last_is_text = matches!(items.last(), Some(Item::Text(_)));
                    let last_is_comp = matches!(items.last(), Some(Item::Comp(_)));
                    let want_text = !last_is_text && (if items.is_empty() { rng.chance(2, 3) } else { rng.chance(3, 5) });
                    if want_text {
                        let m = 1 + rng.below(3);
                        let mut t = String::new();
                        if !items.is_empty() { t.push(' '); }
                        for j in 0..m { if j > 0 { t.push(' '); } t.push_str(rng.pick_str(WORDS)); }
                        t.push(' ');
                        items.push(Item::Text(t));
                    } else {
                        // two components in a row: glued, or separated by a line break only (read as one space)
                        if last_is_comp && rng.chance(1, 2) { items.push(Item::SoftBreak); }
                        let c = component(rng, extended, &mut defs, steps_in_section, sections_done);
                        items.push(Item::Comp(c));
                    }
                }
                if let Some(Item::Text(t)) = items.last_mut() { let tt = t.trim_end().to_string(); *t = if tt.is_empty() { "x".into() } else { tt + "." }; }
                blocks.push(Block::Step(items));
                steps_in_section += 1;
                section_has_content = true;
            }
        }
    }
    WfRecipe { front, blocks, extended }
}

fn component(rng: &mut Rng, extended: bool, defs: &mut Defs, steps_before: u32, sections_done: u32) -> Comp {
    let kind = match rng.below(6) { 0 => Kind::Cookware, 1 => Kind::Timer, _ => Kind::Ingredient };
    match kind {
        Kind::Timer => {
            let has_name = rng.chance(1, 3);
            let name = if has_name { rng.pick_str(&["rest", "bake time", "é"]).to_string() } else { String::new() };
            let qty = if extended || !has_name || rng.chance(2, 3) {
                let v = match num(rng, extended) { n => Val::Num(n) };
                Some(Qty { val: v, unit: Some(rng.pick_str(TIME_UNITS).to_string()), lock: false })
            } else { None };
            Comp { kind, name, alias: None, mods: 0, inter: None, qty, note: None, braces: true }
        }
        Kind::Cookware => {
            // reference to an earlier definition?
            let cands: Vec<usize> = (0..defs.cookware.len()).filter(|&i| !defs.cookware[i].2).collect();
            if extended && !cands.is_empty() && rng.chance(1, 4) {
                let d = cands[rng.below(cands.len())];
                let name = defs.cookware[d].0.clone();
                // the last earlier non-reference with this name decides what is inherited
                let last = (0..defs.cookware.len()).rev().find(|&i| !defs.cookware[i].2 && fold(&defs.cookware[i].0) == fold(&name)).unwrap();
                let qty_kind = defs.cookware[last].3;
                let qty = match qty_kind { Some(true) => None, _ if rng.chance(1, 2) => Some(Qty { val: Val::Num(num(rng, extended)), unit: None, lock: false }), _ => None };
                let qty = if qty_kind.is_none() { qty } else if qty_kind == Some(false) { qty } else { None };
                defs.cookware.push((name.clone(), M_REF, true, None));
                return Comp { kind, name: name.clone(), alias: None, mods: M_REF, inter: None, qty, note: None, braces: true };
            }
            let name = rng.pick_str(&["pan", "large pot", "wooden spoon", "oven", "bowl"]).to_string();
            let mut mods = 0;
            if extended && rng.chance(1, 6) { mods |= *rng.pick(&[M_HIDDEN, M_OPT]); }
            let qty = if rng.chance(1, 3) { Some(Qty { val: if rng.chance(1, 4) { Val::Text("a few".into()) } else { Val::Num(Num::Regular(2.0, "2".into())) }, unit: None, lock: false }) } else { None };
            let note = if rng.chance(1, 6) { Some(rng.pick_str(NOTES).to_string()) } else { None };
            let single = !name.contains(' ');
            let braces = !(single && qty.is_none() && rng.chance(1, 2));
            defs.cookware.push((name.clone(), mods, false, qty.as_ref().map(|q| matches!(q.val, Val::Text(_)))));
            Comp { kind, name, alias: None, mods, inter: None, qty, note: if braces { note } else { None }, braces }
        }
        Kind::Ingredient => {
            // intermediate preparation reference
            if extended && rng.chance(1, 10) && (steps_before > 0 || sections_done > 0) {
                let (rel, sec, val) = if steps_before > 0 && (sections_done == 0 || rng.chance(1, 2)) {
                    (rng.chance(1, 2), false, 1 + rng.below(steps_before as usize) as u32)
                } else { (rng.chance(1, 2), true, 1 + rng.below(sections_done as usize) as u32) };
                let name = rng.pick_str(&["dough", "the mix", "sauce"]).to_string();
                defs.ingredients.push((name.clone(), M_REF, true, None, None));
                return Comp { kind, name, alias: None, mods: M_REF, inter: Some((rel, sec, val)), qty: None, note: None, braces: true };
            }
            let cands: Vec<usize> = (0..defs.ingredients.len()).filter(|&i| !defs.ingredients[i].2).collect();
            if extended && !cands.is_empty() && rng.chance(1, 4) {
                let d = cands[rng.below(cands.len())];
                let mut name = defs.ingredients[d].0.clone();
                let last = (0..defs.ingredients.len()).rev().find(|&i| !defs.ingredients[i].2 && fold(&defs.ingredients[i].0) == fold(&name)).unwrap();
                if rng.chance(1, 4) { name = name.to_uppercase(); if fold(&name) != fold(&defs.ingredients[last].0) { name = defs.ingredients[last].0.clone(); } }
                let (dk, du) = (defs.ingredients[last].3, defs.ingredients[last].4.clone());
                let qty = match dk {
                    Some(true) => if rng.chance(1, 3) { Some(Qty { val: Val::Text("some".into()), unit: du.clone(), lock: false }) } else { None },
                    Some(false) => if rng.chance(1, 2) { Some(Qty { val: Val::Num(num(rng, extended)), unit: du.clone(), lock: false }) } else { None },
                    None => None,
                };
                defs.ingredients.push((name.clone(), M_REF, true, None, None));
                return Comp { kind, name, alias: None, mods: M_REF, inter: None, qty, note: None, braces: true };
            }
            let name = rng.pick_str(NAMES).to_string();
            let mut mods = 0;
            if extended && rng.chance(1, 5) { mods |= *rng.pick(&[M_HIDDEN, M_OPT, M_RECIPE]); }
            let alias = if extended && rng.chance(1, 8) { Some(rng.pick_str(&["AP", "the good stuff", "é"]).to_string()) } else { None };
            let qty = if rng.chance(2, 3) {
                let val = value(rng, extended, true);
                // a text value that starts with a number is core syntax only when a `%unit` follows: without the `%`
                // ADVANCED_UNITS documents it as number + unit
                let number_led = matches!(&val, Val::Text(t) if t.starts_with(|c: char| c.is_ascii_digit()));
                let unit = if (number_led && extended) || rng.chance(2, 3) { Some(rng.pick_str(UNITS).to_string()) } else { None };
                let lock = extended && !matches!(val, Val::Text(_)) && rng.chance(1, 8);
                Some(Qty { val, unit, lock })
            } else { None };
            let note = if rng.chance(1, 6) { Some(rng.pick_str(NOTES).to_string()) } else { None };
            let single = !name.contains(' ') && !name.chars().any(|c| !c.is_alphanumeric()) && !name.starts_with(|c: char| c.is_ascii_digit());
            let braces = !(single && qty.is_none() && alias.is_none() && rng.chance(1, 2));
            defs.ingredients.push((name.clone(), mods, false, qty.as_ref().map(|q| matches!(q.val, Val::Text(_))), qty.as_ref().and_then(|q| q.unit.clone())));
            Comp { kind, name, alias, mods, inter: None, qty, note: if braces { note } else { None }, braces }
        }
    }
}

// ---------------------------------------------------------------- spelling

#[derive(Clone, Copy)]
pub struct Style { pub seed: u64, pub spaces: bool, pub comments: bool, pub wrap: bool, pub crlf: bool, pub unit_space: bool }

impl Style { pub fn plain() -> Self { Style { seed: 0, spaces: false, comments: false, wrap: false, crlf: false, unit_space: false } } }

fn sp(rng: &mut Rng, st: &Style) -> &'static str { if st.spaces { rng.pick_str(&["", "", " ", "  ", "\t"]) } else { "" } }
fn cm(rng: &mut Rng, st: &Style) -> &'static str { if st.comments && rng.chance(1, 4) { rng.pick_str(&["[- c -]", "[-é-]", "[- @x{} -]"]) } else { "" } }

fn spell_num(n: &Num, rng: &mut Rng, st: &Style) -> String {
    match n {
        Num::Regular(_, s) => s.clone(),
        Num::Frac { whole, num, den } => {
            // blanks and block comments between the parts of a fraction / mixed number (several of them at once make long token runs)
            let f = format!("{num}{}{}{}/{}{}{}{den}", sp(rng, st), cm(rng, st), sp(rng, st), sp(rng, st), cm(rng, st), sp(rng, st));
            if *whole > 0 { let c = cm(rng, st); if c.is_empty() { format!("{whole} {f}") } else { format!("{whole} {c}{}{f}", rng.pick_str(&["", " "])) } } else { f }
        }
    }
}

fn spell_qty(q: &Qty, rng: &mut Rng, st: &Style, extended: bool, kind: Kind) -> String {
    let mut s = String::new();
    s.push_str(sp(rng, st));
    if q.lock { s.push('='); s.push_str(sp(rng, st)); }
    match &q.val {
        Val::Num(n) => s.push_str(&spell_num(n, rng, st)),
        Val::Range(a, b) => { s.push_str(&spell_num(a, rng, st)); s.push_str(sp(rng, st)); s.push('-'); s.push_str(sp(rng, st)); s.push_str(&spell_num(b, rng, st)); }
        Val::Text(t) => s.push_str(t),
    }
    if let Some(u) = &q.unit {
        // `1 kg` without % only under ADVANCED_UNITS, numeric value, unit that starts with a word
        let wordy = u.chars().next().map(|c| c.is_alphabetic()).unwrap_or(false);
        if extended && st.unit_space && !matches!(q.val, Val::Text(_)) && wordy && kind != Kind::Cookware {
            s.push(' '); s.push_str(u);
        } else {
            s.push_str(sp(rng, st)); s.push_str(cm(rng, st)); s.push('%'); s.push_str(sp(rng, st)); s.push_str(u);
        }
    }
    s.push_str(sp(rng, st));
    s
}

pub fn spell_comp(c: &Comp, rng: &mut Rng, st: &Style, extended: bool) -> String {
    let mut s = String::new();
    s.push(match c.kind { Kind::Ingredient => '@', Kind::Cookware => '#', Kind::Timer => '~' });
    // modifiers in a random order
    let mut ms: Vec<String> = Vec::new();
    if c.mods & M_RECIPE != 0 { ms.push("@".into()); }
    if c.mods & M_HIDDEN != 0 { ms.push("-".into()); }
    if c.mods & M_OPT != 0 { ms.push("?".into()); }
    if c.mods & M_NEW != 0 { ms.push("+".into()); }
    if c.mods & M_REF != 0 {
        let mut m = String::from("&");
        if let Some((rel, sec, val)) = c.inter { m.push('('); m.push_str(sp(rng, st)); if sec { m.push('='); } if rel { m.push('~'); } m.push_str(&val.to_string()); m.push_str(sp(rng, st)); m.push(')'); }
        ms.push(m);
    }
    rng.shuffle(&mut ms);
    for m in ms { s.push_str(&m); }
    if c.braces {
        // a multi-word name may wrap over a line break (read as one space)
        // (or carry a block comment between two of its words, or a wrap after a trailing blank: read as one space)
        if st.wrap && c.name.contains(' ') && rng.chance(1, 3) { s.push_str(&c.name.replacen(' ', if rng.chance(1, 3) { " \n" } else { "\n" }, 1)); }
        else if st.comments && c.name.contains(' ') && rng.chance(1, 3) { s.push_str(&c.name.replacen(' ', rng.pick_str(&[" [- c -] ", "[- c -] ", " [-é-]"]), 1)); }
        else { s.push_str(&c.name); }
        if let Some(a) = &c.alias { s.push_str(sp(rng, st)); s.push('|'); s.push_str(sp(rng, st)); s.push_str(a); }
        if !c.name.is_empty() { s.push_str(sp(rng, st)); }
        s.push('{');
        match &c.qty { Some(q) => s.push_str(&spell_qty(q, rng, st, extended, c.kind)), None => s.push_str(sp(rng, st)) }
        s.push('}');
        if let Some(n) = &c.note { s.push('('); s.push_str(n); s.push(')'); }
    } else {
        s.push_str(&c.name);
    }
    s
}

pub fn spell(r: &WfRecipe, st: &Style) -> String {
    let mut rng = Rng::new(st.seed ^ 0x57);
    let mut out = String::new();
    if let Some(fm) = &r.front {
        // blank lines (also lines of blanks only, CRLF ones in the crlf style) may precede the front matter
        if st.spaces { out.push_str(rng.pick_str(&["", "", "\n", "  \n", "\t\n\n", " \n"])); }
        out.push_str("---\n");
        for (k, v) in fm { out.push_str(&format!("{k}: {v}\n")); }
        out.push_str("---\n");
    }
    for (bi, b) in r.blocks.iter().enumerate() {
        if bi > 0 || r.front.is_some() {
            if bi > 0 { out.push('\n'); }
            out.push_str(if st.comments && rng.chance(1, 4) { "-- between blocks\n\n" } else if st.spaces && rng.chance(1, 4) { "  \n\n" } else { "\n" });
            if bi == 0 { /* after front matter a single newline is enough, but keep the separator */ }
        }
        match b {
            Block::Meta(k, v) => out.push_str(&format!(">>{}{k}{}:{}{v}{}", sp(&mut rng, st), sp(&mut rng, st), sp(&mut rng, st), sp(&mut rng, st))),
            // the fences may be glued to the name (`==Dough==`); a name that ends in a digit or letter is followed by `=` directly
            Block::Section(n) => match n { Some(n) => if rng.chance(1, 3) { out.push_str(&format!("{}{n}{}", rng.pick_str(&["=", "=="]), rng.pick_str(&["", "=", "=="]))) } else { out.push_str(&format!("={} {n} {}", if rng.chance(1, 2) { "=" } else { "" }, rng.pick_str(&["", "=", "=="]))) }, None => out.push_str(rng.pick_str(&["=", "==", "= ="])) },
            Block::Text(ps) => { for (i, p) in ps.iter().enumerate() { if i > 0 { out.push('\n'); } out.push_str("> "); out.push_str(p); } }
            Block::Switch(k, v) => out.push_str(&format!(">>{}[{k}]{}:{}{v}{}", sp(&mut rng, st), sp(&mut rng, st), sp(&mut rng, st), sp(&mut rng, st))),
            Block::Components(cs) => {
                // a `>>` line is a block of its own: the blank lines around the mode switches are optional
                let tight = rng.chance(1, 2);
                out.push_str(rng.pick_str(&[">> [mode]: components", ">> [define]: ingredients", ">>[mode]:components"]));
                out.push_str(if tight { "\n" } else { "\n\n" });
                for (i, c) in cs.iter().enumerate() { if i > 0 { out.push('\n'); } out.push_str(&spell_comp(c, &mut rng, st, r.extended)); }
                out.push_str(if tight { "\n" } else { "\n\n" });
                out.push_str(rng.pick_str(&[">> [mode]: all", ">> [define]: default", ">> [mode]: all"]));
            }
            Block::Step(items) => {
                for it in items {
                    match it {
                        Item::Text(t) => {
                            // spell word by word so that comments / wrapping can go between words
                            let mut first = true;
                            for piece in t.split_inclusive(' ') {
                                if !first { out.push_str(cm(&mut rng, st)); }
                                first = false;
                                if st.wrap && piece.ends_with(' ') && rng.chance(1, 6) { out.push_str(piece.trim_end_matches(' ')); out.push('\n'); } else { out.push_str(piece); }
                            }
                        }
                        Item::Comp(c) => out.push_str(&spell_comp(c, &mut rng, st, r.extended)),
                        Item::SoftBreak => out.push('\n'),
                    }
                }
                if st.comments && rng.chance(1, 5) { out.push_str("-- trailing"); }
            }
        }
    }
    out.push('\n');
    if st.crlf { out = out.replace('\n', "\r\n"); }
    out
}

// ---------------------------------------------------------------- expected result (same rendering as render::r_recipe)

fn cps(s: &str) -> String { if s.is_empty() { "''".into() } else { s.chars().map(|c| (c as u32).to_string()).collect::<Vec<_>>().join(".") } }
fn opt(o: Option<String>) -> String { o.unwrap_or_else(|| "-".into()) }

fn r_num(n: &Num) -> String {
    match n { Num::Regular(v, _) => format!("R {}", v.to_bits()), Num::Frac { whole, num, den } => format!("F {whole} {num} {den} {}", 0f64.to_bits()) }
}
fn r_val(v: &Val) -> String {
    match v { Val::Num(n) => format!("N({})", r_num(n)), Val::Range(a, b) => format!("RNG({},{})", r_num(a), r_num(b)), Val::Text(t) => format!("TXT({})", t.chars().map(|c| (c as u32).to_string()).collect::<Vec<_>>().join(".")) }
}
fn r_sval(q: &Qty, is_ingredient: bool) -> String {
    let linear = is_ingredient && !matches!(q.val, Val::Text(_)) && !q.lock;
    format!("{}:{}", if linear { "linear" } else { "fixed" }, r_val(&q.val))
}

/// the expected `r_recipe`-style rendering plus the expected diagnostics rendering
pub fn expected(r: &WfRecipe) -> String {
    struct EI { name: String, alias: Option<String>, qty: Option<Qty>, note: Option<String>, mods: u32, rel: String, refs: Vec<usize>, is_def: bool, refpath: Option<String>, in_step: bool }
    struct EC { name: String, qty: Option<Qty>, note: Option<String>, mods: u32, target: Option<usize>, refs: Vec<usize>, in_step: bool }
    let mut ings: Vec<EI> = Vec::new();
    let mut cws: Vec<EC> = Vec::new();
    let mut tms: Vec<String> = Vec::new();
    let mut secs: Vec<(Option<String>, Vec<String>, usize /*step positions*/)> = Vec::new();
    let mut cur: (Option<String>, Vec<String>) = (None, Vec::new());
    let mut cur_steps: Vec<usize> = Vec::new(); // content indices of steps in the current section
    let mut step_no = 1u32;
    let mut meta: Vec<(String, String)> = Vec::new();
    let mut used_old_meta: Vec<()> = Vec::new();
    let (mut text_mode, mut steps_mode, mut dup_ref) = (false, false, false);
    for b in &r.blocks {
        match b {
            Block::Switch(k, v) => {
                if k == "duplicate" { dup_ref = v == "ref" || v == "reference"; }
                else { text_mode = v == "text"; steps_mode = v == "steps"; }
            }
            Block::Step(items) if text_mode => {
                // a step block in text mode: its shown text becomes a text paragraph
                let mut t = String::new();
                for it in items { match it { Item::Text(x) => t.push_str(x), Item::SoftBreak => t.push(' '), Item::Comp(_) => panic!("component in a text mode block") } }
                if !t.is_empty() { cur.1.push(format!("TEXT({})", cps(&t))); }
            }
            Block::Meta(k, v) => {
                if let Some(e) = meta.iter_mut().find(|e| e.0 == *k) { e.1 = v.clone(); } else { meta.push((k.clone(), v.clone())); }
                used_old_meta.push(());
            }
            Block::Section(n) => {
                if cur.0.is_some() || !cur.1.is_empty() { secs.push((cur.0.clone(), cur.1.clone(), 0)); }
                cur = (n.clone(), Vec::new()); cur_steps.clear(); step_no = 1;
            }
            Block::Text(ps) => { cur.1.push(format!("TEXT({})", cps(&ps.join("")))); }
            Block::Components(cs) => {
                for c in cs {
                    match c.kind {
                        Kind::Cookware => cws.push(EC { name: c.name.clone(), qty: c.qty.clone(), note: None, mods: 0, target: None, refs: vec![], in_step: false }),
                        _ => ings.push(EI { name: c.name.clone(), alias: None, qty: c.qty.clone(), note: None, mods: 0, rel: String::new(), refs: vec![], is_def: true, refpath: None, in_step: false }),
                    }
                }
            }
            Block::Step(items) => {
                let mut its: Vec<String> = Vec::new();
                for it in items {
                    match it {
                        Item::Text(t) => its.push(format!("t:{}", cps(t))),
                        Item::SoftBreak => its.push(format!("t:{}", cps(" "))),
                        Item::Comp(c) => match c.kind {
                            Kind::Timer => {
                                let q = c.qty.as_ref().map(|q| format!("{}%{}", r_sval(q, false), opt(q.unit.as_ref().map(|u| cps(u)))));
                                tms.push(format!("M({};{})", opt(if c.name.is_empty() { None } else { Some(cps(&c.name)) }), opt(q)));
                                its.push(format!("m:{}", tms.len() - 1));
                            }
                            Kind::Cookware => {
                                let idx = cws.len();
                                let mut e = EC { name: c.name.clone(), qty: c.qty.clone(), note: c.note.clone(), mods: c.mods, target: None, refs: vec![], in_step: true };
                                let found = (0..cws.len()).rev().find(|&i| cws[i].mods & M_REF == 0 && fold(&cws[i].name) == fold(&c.name));
                                if c.mods & M_REF != 0 || (c.mods & M_NEW == 0 && (steps_mode || (dup_ref && found.is_some()))) {
                                    let t = found.expect("cookware ref target");
                                    e.mods |= M_REF | (cws[t].mods & (M_HIDDEN | M_OPT));
                                    e.target = Some(t);
                                    cws[t].refs.push(idx);
                                }
                                cws.push(e);
                                its.push(format!("c:{idx}"));
                            }
                            Kind::Ingredient => {
                                let idx = ings.len();
                                let mut e = EI { name: c.name.clone(), alias: c.alias.clone(), qty: c.qty.clone(), note: c.note.clone(), mods: c.mods, rel: String::new(), refs: vec![], is_def: true, refpath: None, in_step: true };
                                if let Some((rel, sec, val)) = c.inter {
                                    let target = if !sec {
                                        if rel { cur_steps[cur_steps.len() - val as usize] } else { cur_steps[val as usize - 1] }
                                    } else if rel { secs.len() - val as usize } else { val as usize - 1 };
                                    e.rel = format!("ref{target}>{}", if sec { "section" } else { "step" });
                                    e.is_def = false;
                                } else if c.mods & M_REF != 0 || (c.mods & M_NEW == 0 && (steps_mode || (dup_ref &&
                                    (0..ings.len()).any(|i| ings[i].mods & M_REF == 0 && fold(&ings[i].name) == fold(&c.name))))) {
                                    let t = (0..ings.len()).rev().find(|&i| ings[i].mods & M_REF == 0 && fold(&ings[i].name) == fold(&c.name)).expect("ingredient ref target");
                                    e.mods |= M_REF | (ings[t].mods & (M_HIDDEN | M_OPT | M_RECIPE));
                                    e.rel = format!("ref{t}>ingredient");
                                    e.is_def = false;
                                    ings[t].refs.push(idx);
                                }
                                ings.push(e);
                                its.push(format!("i:{idx}"));
                            }
                        },
                    }
                }
                cur_steps.push(cur.1.len());
                cur.1.push(format!("STEP({step_no};{})", its.join(",")));
                step_no += 1;
            }
        }
    }
    if cur.0.is_some() || !cur.1.is_empty() { secs.push((cur.0.clone(), cur.1.clone(), 0)); }
    let secs_s: Vec<String> = secs.iter().map(|s| format!("SECT({};{})", opt(s.0.as_ref().map(|n| cps(n))), s.1.join(","))).collect();
    let ings_s: Vec<String> = ings.iter().map(|i| {
        let rel = if i.is_def { format!("def[{}]{}>-", i.refs.iter().map(|x| x.to_string()).collect::<Vec<_>>().join(","), if i.in_step { "+" } else { "-" }) } else { i.rel.clone() };
        let q = i.qty.as_ref().map(|q| format!("{}%{}", r_sval(q, true), opt(q.unit.as_ref().map(|u| cps(u)))));
        format!("I({};{};{};{};{};{};{})", cps(&i.name), opt(i.alias.as_ref().map(|a| cps(a))), opt(q), opt(i.note.as_ref().map(|n| cps(n))), opt(i.refpath.clone()), rel, i.mods)
    }).collect();
    let cws_s: Vec<String> = cws.iter().map(|c| {
        let rel = match c.target { Some(t) => format!("ref{t}"), None => format!("def[{}]{}", c.refs.iter().map(|x| x.to_string()).collect::<Vec<_>>().join(","), if c.in_step { "+" } else { "-" }) };
        format!("C({};-;{};{};{};{})", cps(&c.name), opt(c.qty.as_ref().map(|q| r_sval(q, false))), opt(c.note.as_ref().map(|n| cps(n))), rel, c.mods)
    }).collect();
    let mut s = format!("OUT sections=[{}] ingredients=[{}] cookware=[{}] timers=[{}] inline=[]", secs_s.join(" "), ings_s.join(" "), cws_s.join(" "), tms.join(" "));
    if r.front.is_none() {
        s.push_str(&format!(" meta=[{}]", meta.iter().map(|(k, v)| format!("{}={}", cps(k), cps(v))).collect::<Vec<_>>().join(" ")));
    }
    s
}
