use std::cell::RefCell;
use std::panic::{catch_unwind, AssertUnwindSafe};

thread_local! { static LAST_PANIC: RefCell<Option<String>> = RefCell::new(None); }

pub fn install_panic_hook() {
    std::panic::set_hook(Box::new(|info| {
        let loc = info.location().map(|l| format!("{}:{}", l.file(), l.line())).unwrap_or_default();
        let msg = if let Some(s) = info.payload().downcast_ref::<&str>() { s.to_string() }
            else if let Some(s) = info.payload().downcast_ref::<String>() { s.clone() } else { "?".into() };
        LAST_PANIC.with(|p| *p.borrow_mut() = Some(format!("{loc}|{msg}")));
    }));
}

/// Run `f`; a panic becomes `Err("file:line|message")`.
pub fn guarded<T>(f: impl FnOnce() -> T) -> Result<T, String> {
    LAST_PANIC.with(|p| *p.borrow_mut() = None);
    match catch_unwind(AssertUnwindSafe(f)) {
        Ok(v) => Ok(v),
        Err(_) => Err(LAST_PANIC.with(|p| p.borrow_mut().take()).unwrap_or_else(|| "?|?".into())),
    }
}

/// signature of a panic that does not depend on line numbers: file + first words of the message
pub fn panic_signature(p: &str) -> String {
    let (loc, msg) = p.split_once('|').unwrap_or((p, ""));
    let file = loc.rsplit_once(':').map(|x| x.0).unwrap_or(loc);
    let file = file.strip_prefix("/repo/").unwrap_or(file);
    let head: String = msg.chars().take(40).collect();
    format!("panic:{file}:{head}")
}

pub fn bits(x: f64) -> String { x.to_bits().to_string() }

/// text argument of the line protocol: decimal code points separated by commas, `-` if empty
pub fn enc_text(s: &str) -> String {
    if s.is_empty() { return "-".into(); }
    s.chars().map(|c| (c as u32).to_string()).collect::<Vec<_>>().join(",")
}

pub fn hash64(s: &str) -> u64 {
    let mut h: u64 = 0xcbf29ce484222325;
    for b in s.bytes() { h ^= b as u64; h = h.wrapping_mul(0x100000001b3); }
    h
}
