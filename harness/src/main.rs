mod ctx; mod model; mod rng; mod util; mod props; mod chartable; mod render; mod gen; mod corpus; mod wf; mod recipe_sexp; mod fm;
use ctx::{Ctx, Known};

fn load_known(path: &str) -> Vec<Known> {
    let Ok(s) = std::fs::read_to_string(path) else { return vec![] };
    let v: serde_json::Value = serde_json::from_str(&s).expect("KNOWN_FINDINGS.json is not valid JSON");
    v["findings"].as_array().map(|a| a.iter().map(|e| Known {
        id: e["id"].as_str().unwrap_or("").into(), property: e["property"].as_str().unwrap_or("").into(),
        signature: e["signature"].as_str().unwrap_or("").into(), what: e["what"].as_str().unwrap_or("").into() }).collect()).unwrap_or_default()
}

fn main() {
    let a: Vec<String> = std::env::args().collect();
    if a.len() == 2 && a[1] == "calibrate" { render::calibrate_print(); return; }
    if a.len() == 3 && a[1] == "chartable" { chartable::generate(&a[2]); return; }
    if a.len() == 4 && a[1] == "c03worker" { util::install_panic_hook(); props::c03::worker(&a[2], a[3].parse().unwrap_or(0)); return; }
    if a.len() < 7 { eprintln!("usage: harness <prop> <quick|thorough> <seed> <driver> <known.json> <out.json>"); std::process::exit(2); }
    let (prop, tier, seed, driver, known, out) = (&a[1], &a[2], a[3].parse::<u64>().unwrap_or(1), &a[4], &a[5], &a[6]);
    util::install_panic_hook();
    let mut ctx = Ctx::new(prop, tier, seed, driver, load_known(known));
    ctx.notes.extend(render::calibrate_isolated());
    match prop.as_str() {
        "C11" => props::c11::run(&mut ctx),
        "C12" => props::c12::run(&mut ctx),
        "C09" => props::c09::run(&mut ctx),
        "C08" => props::c08::run(&mut ctx),
        "C01" => props::c01::run(&mut ctx),
        "C04" => props::c04::run(&mut ctx),
        "C06" => props::c06::run(&mut ctx),
        "C10" => props::c10::run(&mut ctx),
        "C07" => props::c07::run(&mut ctx),
        "C02" => props::c02::run(&mut ctx),
        "C03" => props::c03::run(&mut ctx),
        "C14" => props::c14::run(&mut ctx),
        "C05" => props::c05::run(&mut ctx),
        "C17" => props::c17::run(&mut ctx),
        "C18" => props::c18::run(&mut ctx),
        "C13" => props::c13::run(&mut ctx),
        "C15" => props::c15::run(&mut ctx),
        #[cfg(feature = "ffi")]
        "C19" => props::c19::run(&mut ctx),
        "C16" => props::c16::run(&mut ctx),
        _ => { eprintln!("unknown property {prop}"); std::process::exit(2); }
    }
    ctx.finish(out);
}
