//! The Lean model behind a pipe: one request line in, one reply line out.
use std::io::{BufRead, BufReader, Write};
use std::process::{Child, ChildStdin, ChildStdout, Command, Stdio};

pub struct Model { child: Child, stdin: Option<ChildStdin>, stdout: BufReader<ChildStdout> }

impl Model {
    pub fn spawn(driver: &str) -> std::io::Result<Self> {
        let mut child = Command::new(driver).stdin(Stdio::piped()).stdout(Stdio::piped()).spawn()?;
        let stdin = child.stdin.take();
        let stdout = BufReader::new(child.stdout.take().unwrap());
        Ok(Model { child, stdin, stdout })
    }
    /// send all lines, read as many replies (writer runs on its own thread so neither pipe fills up)
    pub fn batch(&mut self, lines: &[String]) -> Vec<String> {
        let mut stdin = self.stdin.take().expect("model stdin");
        let mut out = Vec::with_capacity(lines.len());
        std::thread::scope(|s| {
            let h = s.spawn(move || {
                for l in lines { let _ = stdin.write_all(l.as_bytes()); let _ = stdin.write_all(b"\n"); }
                let _ = stdin.write_all(b"flush\n");
                let _ = stdin.flush();
                stdin
            });
            let mut buf = String::new();
            loop {
                buf.clear();
                let n = self.stdout.read_line(&mut buf).unwrap_or(0);
                if n == 0 { break; }
                let l = buf.trim_end_matches('\n').to_string();
                if l == "flushed" { break; }
                out.push(l);
            }
            self.stdin = Some(h.join().unwrap());
        });
        while out.len() < lines.len() { out.push("<model-died>".to_string()); }
        out
    }
    pub fn one(&mut self, line: &str) -> String { self.batch(&[line.to_string()]).pop().unwrap() }
}

impl Drop for Model {
    fn drop(&mut self) { self.stdin.take(); let _ = self.child.wait(); }
}
