//! Collection of cases, comparison with the model, oracle failures, counters, result file.
use crate::model::Model;
use serde_json::{json, Value};
use std::collections::{BTreeMap, HashSet};

pub struct Case { pub op: String, pub impl_reply: String, pub nontrivial: bool, pub desc: String }

pub struct OracleFailure { pub input: String, pub message: String, pub signature: String }

pub struct Known { pub id: String, pub property: String, pub signature: String, pub what: String }

pub struct Ctx {
    pub property: String,
    pub tier: String,
    pub seed: u64,
    pub thorough: bool,
    pub driver: String,
    pub cases: Vec<Case>,
    pub evaluations: u64,
    pub distinct: HashSet<u64>,
    pub samples: Vec<Value>,
    pub disagreements: Vec<Value>,
    pub compared: u64,
    pub oracle_failures: Vec<OracleFailure>,
    pub oracle_fail_count: u64,
    pub counters: BTreeMap<String, u64>,
    pub rule: String,
    pub exhaustive: bool,
    pub notes: Vec<String>,
    pub known: Vec<Known>,
    pub known_hits: BTreeMap<String, (u64, String)>,
    model: Option<Model>,
    sig_seen: HashSet<String>,
}

impl Ctx {
    pub fn new(property: &str, tier: &str, seed: u64, driver: &str, known: Vec<Known>) -> Self {
        Ctx { property: property.into(), tier: tier.into(), seed, thorough: tier == "thorough", driver: driver.into(),
            cases: vec![], evaluations: 0, distinct: HashSet::new(), samples: vec![], disagreements: vec![], compared: 0,
            oracle_failures: vec![], oracle_fail_count: 0, counters: BTreeMap::new(), rule: String::new(), exhaustive: false,
            notes: vec![], known, known_hits: BTreeMap::new(), model: None, sig_seen: HashSet::new() }
    }
    pub fn count(&mut self, key: &str) { *self.counters.entry(key.to_string()).or_insert(0) += 1; }
    pub fn count_n(&mut self, key: &str, n: u64) { *self.counters.entry(key.to_string()).or_insert(0) += n; }

    /// An evaluation of the implementation that is not compared with the model (oracle only).
    pub fn eval(&mut self, key: &str, nontrivial: bool) {
        self.evaluations += 1;
        if nontrivial { self.distinct.insert(crate::util::hash64(key)); }
    }

    /// A correspondence case: `op` is the request line for the model, `impl_reply` the canonical reply of the code.
    pub fn case(&mut self, op: String, impl_reply: String, nontrivial: bool, desc: String) {
        self.evaluations += 1;
        if nontrivial { self.distinct.insert(crate::util::hash64(&op)); }
        self.cases.push(Case { op, impl_reply, nontrivial, desc });
        if self.cases.len() >= 20000 { self.flush(); }
    }

    pub fn model(&mut self) -> &mut Model {
        if self.model.is_none() { self.model = Some(Model::spawn(&self.driver).expect("cannot start model driver")); }
        self.model.as_mut().unwrap()
    }

    /// Send the queued cases to the model and compare.
    pub fn flush(&mut self) {
        if self.cases.is_empty() { return; }
        let cases = std::mem::take(&mut self.cases);
        let ops: Vec<String> = cases.iter().map(|c| c.op.clone()).collect();
        let replies = self.model().batch(&ops);
        for (c, r) in cases.iter().zip(replies.iter()) {
            self.compared += 1;
            if &c.impl_reply != r {
                if self.disagreements.len() < 25 {
                    self.disagreements.push(json!({"op": c.op, "impl": c.impl_reply, "model": r, "input": c.desc}));
                } else { self.count("disagreements_beyond_25"); }
                self.count("disagreements_total");
            } else if c.nontrivial && self.samples.len() < 6 && (self.compared % 97 == 1 || self.samples.len() < 2) {
                self.samples.push(json!({"op": c.op, "reply_both": r, "input": c.desc}));
            }
        }
    }

    /// The property's oracle failed on the implementation for `input`.
    pub fn oracle_fail(&mut self, input: String, message: String, signature: String) {
        self.oracle_fail_count += 1;
        if let Some(k) = self.known.iter().find(|k| k.property == self.property && k.signature == signature) {
            let e = self.known_hits.entry(k.id.clone()).or_insert((0, k.what.clone()));
            e.0 += 1;
            return;
        }
        // keep the shortest input per signature
        if self.sig_seen.contains(&signature) {
            if let Some(f) = self.oracle_failures.iter_mut().find(|f| f.signature == signature) {
                if input.len() < f.input.len() { f.input = input; f.message = message; }
            }
            return;
        }
        if self.oracle_failures.len() < 20 {
            self.sig_seen.insert(signature.clone());
            self.oracle_failures.push(OracleFailure { input, message, signature });
        }
    }

    pub fn finish(mut self, out: &str) {
        self.flush();
        let res = json!({
            "property": self.property, "tier": self.tier, "seed": self.seed,
            "evaluations": self.evaluations, "distinct_nontrivial": self.distinct.len(),
            "rule": self.rule, "exhaustive": self.exhaustive,
            "samples": self.samples, "disagreements": self.disagreements, "disagreements_checked": self.compared,
            "oracle_failures": self.oracle_failures.iter().map(|f| json!({"input": f.input, "message": f.message, "signature": f.signature})).collect::<Vec<_>>(),
            "oracle_fail_count": self.oracle_fail_count,
            "known_hits": self.known_hits.iter().map(|(k, v)| json!({"id": k, "count": v.0, "what": v.1})).collect::<Vec<_>>(),
            "counters": self.counters, "notes": self.notes,
        });
        std::fs::write(out, serde_json::to_string_pretty(&res).unwrap()).expect("write result");
    }
}
