//! Input generators shared by the syntax-level properties.
use crate::rng::Rng;

/// token alphabet for exhaustive short strings and random soups
pub const ALPHABET: &[&str] = &[
    "@", "#", "~", "{", "}", "(", ")", "%", "|", "=", "-", "--", ">", ">>", ":", "/", ".", "*", "&", "?", "+", "\\",
    "[-", "-]", "[", "]", ",", "a", "word", "1", "0", "01", "é", "😀", " ", "  ", "\t", "\n", "\n\n", "\r\n", "---",
    "kg", "min", "C", "[mode]", "\u{00A0}", "\u{000B}", "«", "—", "¡", "\u{2212}",
];

/// characters that look innocent but are special for some routine (BOM, zero-width and Unicode spaces,
/// line/paragraph separators, combining marks, NUL); inserted by `mutate` and before front matter
pub const EXOTIC: &[&str] = &["\u{FEFF}", "\u{200B}", "\u{0085}", "\u{2028}", "\u{2029}", "\u{3000}", "\u{0301}", "\u{202E}", "\u{00AD}", "\u{0}", "\u{1680}", "\u{2003}"];

pub fn soup(rng: &mut Rng, max_len: usize) -> String {
    let n = 1 + rng.below(max_len);
    let mut s = String::new();
    for _ in 0..n { s.push_str(rng.pick_str(ALPHABET)); }
    s
}

/// all strings of exactly `len` alphabet symbols, by index
pub fn nth_string(len: usize, mut idx: usize) -> String {
    let mut s = String::new();
    for _ in 0..len { s.push_str(ALPHABET[idx % ALPHABET.len()]); idx /= ALPHABET.len(); }
    s
}

/// long runs of multi-byte text (labels that are clipped, truncated or previewed at a byte count land inside a character)
pub const LONG_TEXTS: &[&str] = &["Длятестапонадобятсяследующиепродукты: мука, вода, соль и немного терпения", "-Длятестапонадобятсяследующиепродукты и ещё кое-что", "crème fraîche épaisse à 30 % ou crème double, bien froide, fouettée", "日本料理の基本は出汁にあります。昆布と鰹節を使って丁寧に取りましょう。", "xxxxxxxcrème fraîche épaisse à 30 % | crème double"];
const WORDS: &[&str] = &["flour", "salt", "olive", "oil", "Crème", "ñame", "pan", "egg", "water", "mix", "the", "and", "Bake", "until", "golden", "sea", "1st", "2", "x", "😀", "añejo", "pot", "de", "é"];
const UNITS: &[&str] = &["g", "kg", "ml", "l", "cup", "cups", "tsp", "tbsp", "min", "minutes", "h", "°C", "C", "F", "pinch", "clove", "oz", "lb", "s"];
const NUMS: &[&str] = &["1", "2", "200", "0.5", "1.5", ".5", "1/2", "1 1/2", "3 / 4", "2-3", "1.5 - 2", "01", "1/0", "0", "10", "4294967296", "1 / 2", "1e3", "1.", "1.2.3", "1/0-2", "1-1/0", "4-2"];
const SPACES: &[&str] = &["", "", " ", " ", "  ", "\t", "\u{00A0}"];
const COMMENTS: &[&str] = &["[- c -]", "[-é-]", "[--]", "[- x", "-- end", "--é", "[-- n --]", "[---]", "[- a - b -]", "[- x -- y -]", "[---- t ----]"];
/// block comments that are closed (safe to put in the middle of a line: what follows is still content)
const CLOSED_COMMENTS: &[&str] = &["[- c -]", "[-é-]", "[--]", "[-- n --]", "[---]", "[- a - b -]", "[- 1962 -]"];

pub fn word(rng: &mut Rng) -> String { rng.pick_str(WORDS).to_string() }

pub fn name(rng: &mut Rng) -> String {
    let n = 1 + rng.below(3);
    let mut parts = Vec::new();
    for _ in 0..n { parts.push(word(rng)); }
    let mut s = parts.join(if rng.chance(1, 8) { "  " } else { " " });
    if rng.chance(1, 10) { s.push_str("|"); s.push_str(&word(rng)); }
    if rng.chance(1, 30) { s = format!("./{s}"); }
    s
}

pub fn quantity(rng: &mut Rng) -> String {
    let sp = |rng: &mut Rng| rng.pick_str(SPACES).to_string();
    let mut s = String::new();
    s.push_str(&sp(rng));
    if rng.chance(1, 8) { s.push('='); s.push_str(&sp(rng)); }
    match rng.below(10) {
        0 => {}
        1 => s.push_str(&word(rng)),
        2 => { s.push_str(&word(rng)); s.push(' '); s.push_str(&word(rng)); }
        _ => s.push_str(rng.pick_str(NUMS)),
    }
    if rng.chance(1, 12) { s.push_str(rng.pick_str(COMMENTS)); }
    match rng.below(6) {
        0 => {}
        1 => { s.push(' '); s.push_str(rng.pick_str(UNITS)); }
        2 => { s.push_str(&sp(rng)); s.push('%'); }
        _ => { s.push_str(&sp(rng)); s.push('%'); s.push_str(&sp(rng)); s.push_str(rng.pick_str(UNITS)); }
    }
    s.push_str(&sp(rng));
    s
}

pub fn modifiers(rng: &mut Rng) -> String {
    let mut s = String::new();
    if rng.chance(1, 4) {
        let n = 1 + rng.below(2);
        for _ in 0..n {
            match rng.below(8) {
                0 => s.push('@'), 1 => s.push('?'), 2 => s.push('+'), 3 => s.push('-'),
                4 => s.push('&'),
                5 => { s.push('&'); s.push_str(rng.pick_str(&["(1)", "(~1)", "(=1)", "(=~2)", "()", "(~=1)", "(-1)", "(x)", "(99999)", "( 2 )", "(0)"])); }
                _ => s.push('&'),
            }
        }
    }
    s
}

pub fn component(rng: &mut Rng) -> String {
    let marker = rng.pick_str(&["@", "@", "@", "#", "~"]);
    let mut s = String::from(marker);
    s.push_str(&modifiers(rng));
    // recipe references: names that are only a relative prefix, empty path components, a path whose last component starts
    // with a multi-byte character, blanks between the name and the brace (the reference check labels parts of the name)
    if rng.chance(1, 25) {
        let m = rng.pick_str(&["@", "@@", "@@", "#"]);
        let n = rng.pick_str(&["./", "../", ".//", "./ ", ".\\", "./a//b", "../ /", "./desserts/éclair", "../a/b/ñame", "./x/日本", "./é", "./a/", "./stock"]);
        let sp = rng.pick_str(&["", "", " ", "\u{00A0}"]);
        return format!("{m}{n}{sp}{{{}}}", if rng.chance(1, 2) { quantity(rng) } else { String::new() });
    }
    // an empty or blank name in front of an alias
    if rng.chance(1, 40) { s.push_str(rng.pick_str(&["|", " |", "\u{00A0}|"])); s.push_str(&word(rng)); s.push('{'); s.push_str(&quantity(rng)); s.push('}'); return s; }
    match rng.below(8) {
        0 => s.push_str(&word(rng)),                                  // single word
        1 => { s.push_str(&name(rng)); s.push_str("{}"); }
        2 => { s.push('{'); s.push_str(&quantity(rng)); s.push('}'); }  // no name
        _ => { s.push_str(&name(rng)); s.push('{'); s.push_str(&quantity(rng)); s.push('}'); }
    }
    if rng.chance(1, 6) { s.push('('); s.push_str(&name(rng)); if rng.chance(1, 8) { s.push_str("--é\nb"); } s.push(')'); }
    s
}

pub fn step(rng: &mut Rng) -> String {
    let n = 1 + rng.below(6);
    let mut s = String::new();
    for i in 0..n {
        if i > 0 { s.push_str(rng.pick_str(&[" ", " ", " ", "\n", ", ", ". ", "  "])); }
        if rng.chance(1, 40) { s.push_str(rng.pick_str(LONG_TEXTS)); continue; }
        match rng.below(10) {
            0..=3 => s.push_str(&component(rng)),
            4 => s.push_str(rng.pick_str(COMMENTS)),
            5 => { s.push_str(rng.pick_str(&["350 °F", "2 cups", "10 min", "-5 C", "1.5kg", "3 eggs", "\\@home", "a\\", "50% done", "\u{2212}18 °C", "2\u{00A0}œufs", "1\u{202F}000 g", "at 180 C", "3\u{3000}個"])); }
            _ => s.push_str(&word(rng)),
        }
    }
    s
}

pub fn block(rng: &mut Rng) -> String {
    match rng.below(12) {
        0 => {
            let key = rng.pick_str(&["source", "servings", "time", "[mode]", "[define]", "[duplicate]", "tags", "a b", "", "prep time", "author"]);
            let val = rng.pick_str(&["x", "2", "1h 30m", "text", "steps", "components", "all", "ref", "new", "a, b", "", "90", "Ann <http://a.b>"]);
            // comments inside the key, inside the value (with more value text after them) and after it
            match rng.below(8) {
                0 => format!(">> {key}: {} {} {}", word(rng), rng.pick_str(CLOSED_COMMENTS), val),
                1 => format!(">> {key} {} x: {val}", rng.pick_str(CLOSED_COMMENTS)),
                2 => format!(">> {key}: {val} {}", rng.pick_str(COMMENTS)),
                3 => format!(">> {key}:{}{val}{}{}", rng.pick_str(CLOSED_COMMENTS), rng.pick_str(CLOSED_COMMENTS), word(rng)),
                _ => format!(">> {key}: {val}"),
            }
        }
        1 => match rng.below(5) {
            0 => format!("={} {} {} {} {}", rng.pick_str(&["", "=", "=="]), word(rng), rng.pick_str(CLOSED_COMMENTS), word(rng), rng.pick_str(&["", "=", "=="])),
            _ => format!("={} {} {}", rng.pick_str(&["", "=", "=="]), word(rng), rng.pick_str(&["", "=", "==", "= x"])),
        },
        2 => format!("> {}", step(rng)),
        3 => format!("> {}\n> {}\n{}", word(rng), step(rng), word(rng)),
        _ => step(rng),
    }
}

/// recipes built around a small pool of names so that definitions, explicit/implicit references with
/// quantities (same unit, compatible, incompatible, text vs number), intermediate references across text blocks
/// and mode switches actually meet (the free generator almost never makes two components share a name)
pub fn ref_scenario(rng: &mut Rng) -> String {
    const POOL: &[&str] = &["water", "Water", "sea salt", "oil", "é", "pan"];
    const QTYS: &[&str] = &["", "", "1%l", "2%kg", "500%ml", "1%cup", "3", "a bit", "some%g", "1/2%l", "2-3%kg", "1%bag", "2%Bag", "=1%l", "0", "1%", "5%min", "%kg"];
    let mut s = String::new();
    if rng.chance(1, 4) {
        s.push_str(rng.pick_str(&[">> [duplicate]: ref\n\n", ">> [duplicate]: reference\n\n", ">> [define]: ingredients\n\n", ">> [define]: steps\n\n", ">> [define]: text\n\n", ">> [mode]: components\n\n", ">> [duplicate]: new\n\n"]));
    }
    let k = 2 + rng.below(3);
    let names: Vec<&str> = (0..k).map(|_| rng.pick_str(POOL)).collect();
    let n = 2 + rng.below(7);
    for i in 0..n {
        if i > 0 {
            s.push_str(rng.pick_str(&[" ", " then ", ".\n\n", "\n\n", "\n\n> note @water{}\n\n", "\n\n= part\n\n", "\n\n>> [mode]: steps\n\n", "\n\n>> [mode]: components\n\n", "\n\n>> [define]: all\n\n", "\n", "\n\n>> [mode]: components\n-Длятестапонадобятсяследующиепродукты: ", "\n\n>> [mode]: components\ncrème fraîche épaisse à 30 % ou crème double, bien froide: "]));
        }
        let marker = rng.pick_str(&["@", "@", "@", "#"]);
        s.push_str(marker);
        match rng.below(12) {
            0..=3 => s.push('&'),
            4 => s.push_str(rng.pick_str(&["&(1)", "&(~1)", "&(~2)", "&(=1)", "&(=~1)", "&(2)", "&(~3)", "&(=2)"])),
            5 => s.push_str(rng.pick_str(&["+", "-", "?", "+&", "&-", "&?", "@", "&@", "-&", "??"])),
            _ => {}
        }
        s.push_str(names[rng.below(names.len())]);
        // an alias that is itself one of the names in play (a later component or reference may be named like the alias)
        if rng.chance(1, 7) { s.push('|'); s.push_str(names[rng.below(names.len())]); }
        s.push('{');
        s.push_str(rng.pick_str(QTYS));
        s.push('}');
        if rng.chance(1, 8) { s.push_str(rng.pick_str(&["(chopped)", "()", "(a)(b)"])); }
    }
    if rng.chance(1, 3) { s.push('\n'); }
    s
}

/// metadata written twice / in both styles, time keys that override each other, special keys with bad values
pub fn meta_scenario(rng: &mut Rng) -> String {
    const KEYS: &[&str] = &["time", "prep time", "cook time", "prep_time", "cook_time", "duration", "time required", "servings", "serves", "yield", "tags", "author", "source", "locale", "title", "[mode]", "[define]", "[duplicate]", "x"];
    const VALS: &[&str] = &["1h", "10 min", "90", "1h 30m", "a while", "2", "2-4", "a, b", "", "Ann <http://a.b>", "<x>", "en_US", "é", "steps", "ref", "-1", "4294967296", "1e400", "0", "0|2|4", "4|0"];
    let mut s = String::new();
    if rng.chance(1, 2) {
        s.push_str("---\n");
        for _ in 0..(1 + rng.below(4)) {
            let k = rng.pick_str(KEYS);
            match rng.below(6) {
                0 => s.push_str(&format!("{k}: {{prep: {}, cook: {}}}\n", rng.pick_str(VALS), rng.pick_str(VALS))),
                1 => s.push_str(&format!("{k}: [{}, {}]\n", rng.pick_str(VALS), rng.pick_str(VALS))),
                _ => s.push_str(&format!("{k}: {}\n", rng.pick_str(VALS))),
            }
        }
        s.push_str("---\n");
    }
    // sometimes many entries: the deprecation warning then carries one label per entry
    let n_old = if rng.chance(1, 6) { 8 + rng.below(6) } else { 1 + rng.below(4) };
    for _ in 0..n_old {
        s.push_str(&format!(">> {}: {}\n", rng.pick_str(KEYS), rng.pick_str(VALS)));
        if rng.chance(1, 3) { s.push_str(&format!("\n{}\n\n", step(rng))); }
    }
    s
}

/// cookware (and unit-less ingredients) with text, number, range and fraction amounts in every order, repeated through
/// references, so that the grouping of amounts meets text-before-number, number-before-text and mixed sequences
pub fn amount_scenario(rng: &mut Rng) -> String {
    const POOL: &[&str] = &["pan", "pot", "Pan", "big bowl"];
    const AMTS: &[&str] = &["", "big", "2", "3", "1-2", "1/2", "a few", "0", "large", "1.5", "2-4", "=2"];
    let mut s = String::new();
    let k = 1 + rng.below(2);
    let names: Vec<&str> = (0..k).map(|_| rng.pick_str(POOL)).collect();
    let marker = if rng.chance(3, 4) { "#" } else { "@" };
    let n = 2 + rng.below(5);
    let mut seen: Vec<&str> = Vec::new();
    for i in 0..n {
        if i > 0 { s.push_str(rng.pick_str(&[" ", " and ", ".\n\n", "\n"])); }
        let name = names[rng.below(names.len())];
        s.push_str(marker);
        if seen.contains(&name) && rng.chance(5, 6) { s.push('&'); }
        seen.push(name);
        s.push_str(name);
        s.push('{');
        s.push_str(rng.pick_str(AMTS));
        s.push('}');
    }
    s.push('\n');
    s
}

/// front matter as people write it: several entries, non-ASCII keys and values, LF or CRLF, the whole mapping indented,
/// nested mappings that repeat a top-level key name, standard keys with unsupported values and overriding time keys on
/// late lines (their diagnostics are located by searching the YAML text line by line)
pub fn fm_scenario(rng: &mut Rng) -> String {
    const ENTRIES: &[&str] = &[
        "title: Tarta de queso", "author: Ana", "cuisine: café", "descripción: rápido y fácil", "porción: grande", "größe: groß",
        "tags: [dulce, fácil]", "servings: [muchas]", "servings: muchas", "servings: 4", "time: pronto", "time: 1h", "prep time: 5 min",
        "cook time: é", "cook time: 10 min", "locale: español", "source: {name: Ñandú, url: x}", "author: <ñ>", "nota: añadir sal — ¡ya!",
        "nutrition:\n  servings: dos\n  porción: x", "extra:\n  time: mañana\n  título: y", "título: Crème brûlée", "日本: 料理", "yield: número", "duration: soon", "time required: later", "serves: a crowd", "tag: [x]", "tags: 7", "prep_time: nunca", "cook_time: 10 min", "introduction: hola", "source.url: x", "time.prep: 5 min",
    ];
    let n = 2 + rng.below(7);
    let indent = if rng.chance(1, 4) { "  " } else { "" };
    let mut s = String::new();
    if rng.chance(1, 6) { s.push('\n'); }
    // valid YAML that is not a mapping, empty documents
    if rng.chance(1, 10) {
        return format!("---\n{}\n---\n{}", rng.pick_str(&["- a", "[a, b]", "title Bread", "42", "~", "", "# only a comment", "- title: x\n- time: 1h", "\"quoted\"", "true"]), rng.pick_str(&["step\n", "Mezclar @azúcar{1%kg}.\n", ""]));
    }
    s.push_str("---\n");
    for _ in 0..n {
        let e = rng.pick_str(ENTRIES);
        for line in e.split('\n') { s.push_str(indent); s.push_str(line); s.push('\n'); }
    }
    s.push_str("---\n");
    s.push_str(rng.pick_str(&["Mezclar @azúcar{1%kg}.\n", "Sofreír el arroz.\n", "", ">> time: 2h\n\nListo.\n", "@a{1%é}\n"]));
    if rng.chance(1, 3) { s = s.replace('\n', "\r\n"); }
    s
}

pub fn recipe(rng: &mut Rng) -> String {
    match rng.below(12) {
        0 | 1 => return ref_scenario(rng),
        2 => return meta_scenario(rng),
        10 => return amount_scenario(rng),
        11 => return fm_scenario(rng),
        _ => {}
    }
    let mut s = String::new();
    if rng.chance(1, 40) { s.push_str(rng.pick_str(EXOTIC)); }
    if rng.chance(1, 8) {
        s.push_str(rng.pick_str(&["---\ntitle: x\nservings: 2\n---\n", "---\n---\n", "\n---\ntags: [a, b]\ntime: 1h\n---\n", "---\na: [\n---\n", "---\ntime: 10\nprep time: 5\n---\n"]));
    }
    let n = 1 + rng.below(5);
    for i in 0..n {
        if i > 0 { s.push_str(rng.pick_str(&["\n\n", "\n\n", "\n", "\n\n\n", "\r\n\r\n", "\n  \n", "\n-- c\n\n"])); }
        s.push_str(&block(rng));
    }
    if rng.chance(1, 3) { s.push('\n'); }
    s
}

/// random single-token mutation
pub fn mutate(rng: &mut Rng, s: &str) -> String {
    let chars: Vec<char> = s.chars().collect();
    if chars.is_empty() { return rng.pick_str(ALPHABET).to_string(); }
    let pos = rng.below(chars.len() + 1);
    let mut out: String = chars[..pos].iter().collect();
    if rng.chance(1, 5) { out.push_str(rng.pick_str(EXOTIC)); out.extend(chars[pos..].iter()); return out; }
    match rng.below(3) {
        0 => { out.push_str(rng.pick_str(ALPHABET)); out.extend(chars[pos..].iter()); }
        1 => { out.extend(chars[(pos + 1).min(chars.len())..].iter()); }
        _ => { out.push_str(rng.pick_str(ALPHABET)); out.extend(chars[(pos + 1).min(chars.len())..].iter()); }
    }
    out
}

/// the 256 raw extension bit patterns over the eight flag bits (1,3,5,6,7,9,10,11)
pub fn ext_pattern(i: usize) -> u32 {
    let bits = [1u32, 3, 5, 6, 7, 9, 10, 11];
    let mut v = 0u32;
    for (k, b) in bits.iter().enumerate() { if (i >> k) & 1 == 1 { v |= 1 << b; } }
    v
}
