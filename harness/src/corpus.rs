//! Minimised past failures and hand-written edge cases; one input per line, `\n`, `\r`, `\t`, `\\`, `\u{..}` escapes.
pub fn unescape(s: &str) -> String {
    let mut out = String::new();
    let mut it = s.chars().peekable();
    while let Some(c) = it.next() {
        if c != '\\' { out.push(c); continue; }
        match it.next() {
            Some('n') => out.push('\n'), Some('r') => out.push('\r'), Some('t') => out.push('\t'), Some('\\') => out.push('\\'),
            Some('u') => {
                let mut hex = String::new();
                if it.peek() == Some(&'{') { it.next(); while let Some(&h) = it.peek() { it.next(); if h == '}' { break; } hex.push(h); } }
                if let Some(ch) = u32::from_str_radix(&hex, 16).ok().and_then(char::from_u32) { out.push(ch); }
            }
            Some(o) => { out.push('\\'); out.push(o); }
            None => out.push('\\'),
        }
    }
    out
}

pub fn load(name: &str) -> Vec<String> {
    let root = std::env::var("VERIF_ROOT").unwrap_or_else(|_| "/verif".into());
    let path = format!("{root}/corpus/{name}.txt");
    std::fs::read_to_string(path).map(|s| s.lines().filter(|l| !l.starts_with("##")).map(unescape).collect()).unwrap_or_default()
}
