//! One PRNG (splitmix64 seeded xoshiro256**) from which every random choice derives.
#[derive(Clone)]
pub struct Rng { s: [u64; 4] }

fn splitmix(x: &mut u64) -> u64 {
    *x = x.wrapping_add(0x9E3779B97F4A7C15);
    let mut z = *x;
    z = (z ^ (z >> 30)).wrapping_mul(0xBF58476D1CE4E5B9);
    z = (z ^ (z >> 27)).wrapping_mul(0x94D049BB133111EB);
    z ^ (z >> 31)
}

impl Rng {
    pub fn new(seed: u64) -> Self {
        let mut x = seed;
        Rng { s: [splitmix(&mut x), splitmix(&mut x), splitmix(&mut x), splitmix(&mut x)] }
    }
    /// independent stream for a sub-task
    pub fn fork(&mut self, tag: u64) -> Rng { Rng::new(self.next() ^ tag.wrapping_mul(0x2545F4914F6CDD1D)) }
    pub fn next(&mut self) -> u64 {
        let r = self.s[1].wrapping_mul(5).rotate_left(7).wrapping_mul(9);
        let t = self.s[1] << 17;
        self.s[2] ^= self.s[0]; self.s[3] ^= self.s[1]; self.s[1] ^= self.s[2]; self.s[0] ^= self.s[3];
        self.s[2] ^= t; self.s[3] = self.s[3].rotate_left(45);
        r
    }
    pub fn below(&mut self, n: usize) -> usize { if n == 0 { 0 } else { (self.next() % n as u64) as usize } }
    pub fn range(&mut self, lo: i64, hi: i64) -> i64 { lo + (self.next() % ((hi - lo + 1) as u64)) as i64 }
    pub fn chance(&mut self, num: u32, den: u32) -> bool { (self.next() % den as u64) < num as u64 }
    pub fn pick<'a, T>(&mut self, xs: &'a [T]) -> &'a T { &xs[self.below(xs.len())] }
    pub fn pick_str(&mut self, xs: &[&'static str]) -> &'static str { xs[self.below(xs.len())] }
    pub fn unit_f64(&mut self) -> f64 { (self.next() >> 11) as f64 / (1u64 << 53) as f64 }
    pub fn shuffle<T>(&mut self, xs: &mut [T]) {
        for i in (1..xs.len()).rev() { let j = self.below(i + 1); xs.swap(i, j); }
    }
}
