//! Canonical rendering of the implementation's parser events / diagnostics (mirrors lean/CookModel/Driver/Render.lean).
use cooklang::error::{Severity, SourceDiag, Stage};
use cooklang::parser::{BlockKind, Event, IntermediateRefMode, IntermediateTargetKind};
use cooklang::quantity::{Number, Value};
use cooklang::{Span, Text};

pub fn r_span(s: Span) -> String { format!("{}..{}", s.start(), s.end()) }
pub fn r_cps(s: &str) -> String { s.chars().map(|c| (c as u32).to_string()).collect::<Vec<_>>().join(".") }
pub fn r_opt<T>(o: Option<T>, f: impl Fn(T) -> String) -> String { match o { None => "-".into(), Some(x) => f(x) } }

pub fn r_text(t: &Text) -> String {
    let frags: Vec<String> = t.fragments().iter().map(|f| {
        let soft = format!("{f:?}").starts_with("SoftBreak(");
        format!("{}{}:{}", if soft { "s" } else { "t" }, f.start(), r_cps(f.text()))
    }).collect();
    format!("T[{}]@{}", frags.join(";"), r_span(t.span()))
}
pub fn r_number(n: &Number) -> String {
    match n {
        Number::Regular(v) => format!("R {}", v.to_bits()),
        Number::Fraction { whole, num, den, err } => format!("F {whole} {num} {den} {}", err.to_bits()),
    }
}
pub fn r_value(v: &Value) -> String {
    match v {
        Value::Number(n) => format!("N({})", r_number(n)),
        Value::Range { start, end } => format!("RNG({},{})", r_number(start), r_number(end)),
        Value::Text(t) => format!("TXT({})", r_cps(t)),
    }
}
fn r_qvalue(q: &cooklang::parser::QuantityValue) -> String {
    format!("QV({}@{},lock={})", r_value(&q.value), r_span(q.value.span()), r_opt(q.scaling_lock, r_span))
}
fn r_quantity(q: &cooklang::Located<cooklang::parser::Quantity>) -> String {
    format!("Q({},unit={})@{}", r_qvalue(&q.value), r_opt(q.unit.as_ref(), r_text), r_span(q.span()))
}

/// message → kind; unknown messages show up as `other:<msg>` and therefore as a disagreement
pub fn diag_kind(d: &SourceDiag) -> String {
    let m: &str = &d.message;
    let table: &[(&str, &str)] = &[
        ("Invalid single word name", "invalid-single-word-name"),
        ("Duplicate modifier", "duplicate-modifier"),
        ("Invalid intermediate preparation reference: empty", "inter-ref-empty"),
        ("Invalid intermediate preparation reference: wrong relative section order", "inter-ref-wrong-order"),
        ("Invalid intermediate preparation reference: value sign", "inter-ref-sign"),
        ("Invalid intermediate preparation reference: number is 0", "inter-ref-zero"),
        ("Invalid intermediate preparation reference: relative reference to self", "inter-ref-self"),
        ("Invalid intermediate preparation reference: value out of bounds", "inter-ref-bounds"),
        ("Invalid intermediate preparation reference", "inter-ref-invalid"),
        ("Error parsing integer number", "int-parse"),
        ("Error parsing decimal number", "float-parse"),
        ("Invalid cookware quantity: unit", "cookware-unit"),
        ("Invalid cookware modifiers: recipe modifier not allowed", "cookware-recipe-modifier"),
        ("Invalid timer quantity: missing unit", "timer-missing-unit"),
        ("Invalid timer: missing quantity", "timer-missing-quantity"),
        ("Invalid timer: neither quantity nor name", "timer-neither-name-nor-quantity"),
        ("Empty quantity unit", "empty-unit"),
        ("Empty quantity value", "empty-value"),
        ("Division by zero", "division-by-zero"),
        ("A section block is invalid", "section-invalid"),
        ("A metadata block is invalid", "metadata-invalid"),
        ("Empty metadata key", "empty-metadata-key"),
        ("Empty metadata value for key", "empty-metadata-value"),
        // analysis stage
        ("The '>>' syntax for metadata is deprecated", "meta-deprecated"),
        ("Invalid value for config key", "config-invalid-value"),
        ("Unknown config metadata key", "config-unknown-key"),
        ("Unsupported value for key", "std-unsupported-value"),
        ("Time overridden", "time-overridden"),
        ("Time overriden", "time-overridden-fm"),
        ("Ignoring text in define components mode", "text-in-components-mode"),
        ("Conflicting modifiers with intermediate preparation reference", "inter-ref-conflicting-modifiers"),
        ("Incompatible units prevent calculating total amount", "incompatible-units"),
        ("Note not allowed in reference", "note-in-reference"),
        ("Conflicting component reference quantities", "conflicting-ref-quantity"),
        ("Text value may prevent calculating total amount", "text-value-in-ref"),
        ("Referenced recipe not found", "recipe-not-found"),
        ("Timer value is text", "timer-value-text"),
        ("Timer unit is not time", "timer-unit-not-time"),
        ("Unknown timer unit", "timer-unit-unknown"),
        ("Unnecessary scaling lock modifier", "unnecessary-scaling-lock"),
        ("Unsupported modifier combination with reference", "ref-conflicting-modifiers"),
        ("Redundant new (+) modifier", "redundant-new"),
        ("Redundant reference (&) modifier", "redundant-ref"),
        ("Reference not found", "reference-not-found"),
        ("Invalid metadata entry", "metadata-validator"),
    ];
    for c in ["ingredient", "cookware", "timer"] {
        if m == format!("Invalid {c}: multiple aliases") { return format!("multiple-aliases:{c}"); }
        if m == format!("Invalid {c}: empty alias") { return format!("empty-alias:{c}"); }
        if m == format!("Invalid {c} name: is empty") { return format!("empty-name:{c}"); }
        if m == format!("Invalid {c}: modifiers not allowed") { return format!("modifiers-not-allowed:{c}"); }
        if m == format!("Invalid {c}: intermediate preparation reference not allowed") { return format!("inter-ref-not-allowed:{c}"); }
        if m == format!("Invalid {c}: alias not allowed") { return format!("alias-not-allowed:{c}"); }
        if m == format!("A {c} cannot have a note, it will be text") { return format!("note-not-allowed:{c}"); }
        if m == format!("Ignoring {c} in text mode") { return format!("component-in-text-mode:{c}"); }
    }
    for (p, k) in table { if m.starts_with(p) { return k.to_string(); } }
    format!("other:{}", m.replace(' ', "_"))
}

pub fn r_diag(d: &SourceDiag) -> String {
    format!("({};{})", diag_kind(d), d.labels.iter().map(|l| r_span(l.0)).collect::<Vec<_>>().join(","))
}

pub fn r_event(ev: &Event) -> String {
    match ev {
        Event::YAMLFrontMatter(t) => format!("FM {}", r_text(t)),
        Event::Metadata { key, value } => format!("MD {} {}", r_text(key), r_text(value)),
        Event::Section { name } => format!("SEC {}", r_opt(name.as_ref(), r_text)),
        Event::Start(BlockKind::Step) => "START step".into(),
        Event::Start(BlockKind::Text) => "START text".into(),
        Event::End(BlockKind::Step) => "END step".into(),
        Event::End(BlockKind::Text) => "END text".into(),
        Event::Text(t) => format!("TXT {}", r_text(t)),
        Event::Ingredient(i) => format!("ING@{}{{m={}@{},i={},n={},a={},q={},note={}}}", r_span(i.span()),
            i.modifiers.bits(), r_span(i.modifiers.span()),
            r_opt(i.intermediate_data.as_ref(), |d| format!("I({} {} {})@{}",
                (d.ref_mode == IntermediateRefMode::Relative) as u8, (d.target_kind == IntermediateTargetKind::Section) as u8, d.val, r_span(d.span()))),
            r_text(&i.name), r_opt(i.alias.as_ref(), r_text), r_opt(i.quantity.as_ref(), r_quantity), r_opt(i.note.as_ref(), r_text)),
        Event::Cookware(c) => format!("CW@{}{{m={}@{},n={},a={},q={},note={}}}", r_span(c.span()),
            c.modifiers.bits(), r_span(c.modifiers.span()), r_text(&c.name), r_opt(c.alias.as_ref(), r_text),
            r_opt(c.quantity.as_ref(), |q| format!("{}@{}", r_qvalue(q), r_span(q.span()))), r_opt(c.note.as_ref(), r_text)),
        Event::Timer(t) => format!("TM@{}{{n={},q={}}}", r_span(t.span()), r_opt(t.name.as_ref(), r_text), r_opt(t.quantity.as_ref(), r_quantity)),
        Event::Error(d) => format!("ERR{}", r_diag(d)),
        Event::Warning(d) => format!("WARN{}", r_diag(d)),
    }
}

pub fn r_events(evs: &[Event]) -> String {
    if evs.is_empty() { "<none>".into() } else { evs.iter().map(r_event).collect::<Vec<_>>().join(" | ") }
}

pub fn sev_stage(d: &SourceDiag) -> (&'static str, &'static str) {
    (match d.severity { Severity::Error => "E", Severity::Warning => "W" }, match d.stage { Stage::Parse => "P", Stage::Analysis => "A" })
}
