//! Canonical rendering of the implementation's parser events / diagnostics (mirrors lean/CookModel/Driver/Render.lean).
use cooklang::error::{Severity, SourceDiag, Stage};
use cooklang::parser::{BlockKind, Event, IntermediateRefMode, IntermediateTargetKind};
use cooklang::quantity::{Number, Value};
use cooklang::{Span, Text};

pub fn r_span(s: Span) -> String { format!("{}..{}", s.start(), s.end()) }
pub fn r_cps(s: &str) -> String { s.chars().map(|c| (c as u32).to_string()).collect::<Vec<_>>().join(".") }
pub fn r_opt<T>(o: Option<T>, f: impl Fn(T) -> String) -> String { match o { None => "-".into(), Some(x) => f(x) } }

pub fn r_text(t: &Text) -> String {
    let frags: Vec<String> = t.fragments().iter().map(|f| {
        let soft = format!("{f:?}").starts_with("SoftBreak(");
        format!("{}{}:{}", if soft { "s" } else { "t" }, f.start(), r_cps(f.text()))
    }).collect();
    format!("T[{}]@{}", frags.join(";"), r_span(t.span()))
}
pub fn r_number(n: &Number) -> String {
    match n {
        Number::Regular(v) => format!("R {}", v.to_bits()),
        Number::Fraction { whole, num, den, err } => format!("F {whole} {num} {den} {}", err.to_bits()),
    }
}
pub fn r_value(v: &Value) -> String {
    match v {
        Value::Number(n) => format!("N({})", r_number(n)),
        Value::Range { start, end } => format!("RNG({},{})", r_number(start), r_number(end)),
        Value::Text(t) => format!("TXT({})", r_cps(t)),
    }
}
fn r_qvalue(q: &cooklang::parser::QuantityValue) -> String {
    format!("QV({}@{},lock={})", r_value(&q.value), r_span(q.value.span()), r_opt(q.scaling_lock, r_span))
}
fn r_quantity(q: &cooklang::Located<cooklang::parser::Quantity>) -> String {
    format!("Q({},unit={})@{}", r_qvalue(&q.value), r_opt(q.unit.as_ref(), r_text), r_span(q.span()))
}

/// message → kind; unknown messages show up as `other:<msg>` and therefore as a disagreement
pub fn diag_kind(d: &SourceDiag) -> String {
    let m: &str = &d.message;
    let table: &[(&str, &str)] = &[
        ("Invalid single word name", "invalid-single-word-name"),
        ("Duplicate modifier", "duplicate-modifier"),
        ("Invalid intermediate preparation reference: empty", "inter-ref-empty"),
        ("Invalid intermediate preparation reference: wrong relative section order", "inter-ref-wrong-order"),
        ("Invalid intermediate preparation reference: value sign", "inter-ref-sign"),
        ("Invalid intermediate preparation reference: number is 0", "inter-ref-zero"),
        ("Invalid intermediate preparation reference: relative reference to self", "inter-ref-self"),
        ("Invalid intermediate preparation reference: value out of bounds", "inter-ref-bounds"),
        ("Invalid intermediate preparation reference", "inter-ref-invalid"),
        ("Error parsing integer number", "int-parse"),
        ("Error parsing decimal number", "float-parse"),
        ("Invalid cookware quantity: unit", "cookware-unit"),
        ("Invalid cookware modifiers: recipe modifier not allowed", "cookware-recipe-modifier"),
        ("Invalid timer quantity: missing unit", "timer-missing-unit"),
        ("Invalid timer: missing quantity", "timer-missing-quantity"),
        ("Invalid timer: neither quantity nor name", "timer-neither-name-nor-quantity"),
        ("Empty quantity unit", "empty-unit"),
        ("Empty quantity value", "empty-value"),
        ("Division by zero", "division-by-zero"),
        ("A section block is invalid", "section-invalid"),
        ("A metadata block is invalid", "metadata-invalid"),
        ("Empty metadata key", "empty-metadata-key"),
        ("Empty metadata value for key", "empty-metadata-value"),
        // analysis stage
        ("The '>>' syntax for metadata is deprecated", "meta-deprecated"),
        ("Invalid value for config key", "config-invalid-value"),
        ("Unknown config metadata key", "config-unknown-key"),
        ("Unsupported value for key", "std-unsupported-value"),
        ("Time overridden", "time-overridden"),
        ("Time overriden", "time-overridden-fm"),
        ("Ignoring text in define components mode", "text-in-components-mode"),
        ("Conflicting modifiers with intermediate preparation reference", "inter-ref-conflicting-modifiers"),
        ("Incompatible units prevent calculating total amount", "incompatible-units"),
        ("Note not allowed in reference", "note-in-reference"),
        ("Conflicting component reference quantities", "conflicting-ref-quantity"),
        ("Text value may prevent calculating total amount", "text-value-in-ref"),
        ("Referenced recipe not found", "recipe-not-found"),
        ("Timer value is text", "timer-value-text"),
        ("Timer unit is not time", "timer-unit-not-time"),
        ("Unknown timer unit", "timer-unit-unknown"),
        ("Unnecessary scaling lock modifier", "unnecessary-scaling-lock"),
        ("Unsupported modifier combination with reference", "ref-conflicting-modifiers"),
        ("Redundant new (+) modifier", "redundant-new"),
        ("Redundant reference (&) modifier", "redundant-ref"),
        ("Reference not found", "reference-not-found"),
        ("Invalid metadata entry", "metadata-validator"),
    ];
    for c in ["ingredient", "cookware", "timer"] {
        if m == format!("Invalid {c}: multiple aliases") { return format!("multiple-aliases:{c}"); }
        if m == format!("Invalid {c}: empty alias") { return format!("empty-alias:{c}"); }
        if m == format!("Invalid {c} name: is empty") { return format!("empty-name:{c}"); }
        if m == format!("Invalid {c}: modifiers not allowed") { return format!("modifiers-not-allowed:{c}"); }
        if m == format!("Invalid {c}: intermediate preparation reference not allowed") { return format!("inter-ref-not-allowed:{c}"); }
        if m == format!("Invalid {c}: alias not allowed") { return format!("alias-not-allowed:{c}"); }
        if m == format!("A {c} cannot have a note, it will be text") { return format!("note-not-allowed:{c}"); }
        if m == format!("Ignoring {c} in text mode") { return format!("component-in-text-mode:{c}"); }
    }
    for (p, k) in table { if m.starts_with(p) { return k.to_string(); } }
    if let Some(k) = learned_kind(m) { return k; }
    format!("other:{}", m.replace(' ', "_"))
}

// ---- reworded messages ---------------------------------------------------------------------------------------------
// The kinds above are recognised by message text. A change that only REWORDS a message (same construct, same severity,
// stage and labels) must not look like a different diagnostic. Before a run, `calibrate` parses one small input per kind
// (below) with the real code; a diagnostic whose text is not catalogued but which is the only unrecognised diagnostic of the
// expected severity and stage in a report that lacks the expected kind is taken to be that kind, and its text (quoted parts
// and digits removed, component word generalised) is recognised from then on. On the unchanged tree nothing is learned.

static LEARNED: std::sync::RwLock<Vec<(String, String)>> = std::sync::RwLock::new(Vec::new());

fn template(m: &str) -> String {
    let mut out = String::new();
    let mut in_quote = false;
    for c in m.chars() {
        if c == '\'' { in_quote = !in_quote; out.push(c); continue; }
        if in_quote || c.is_ascii_digit() { continue; }
        out.push(c);
    }
    for c in ["ingredient", "cookware", "timer"] { out = out.replace(c, "{c}"); }
    out
}

fn learned_kind(m: &str) -> Option<String> {
    let l = LEARNED.read().ok()?;
    if l.is_empty() { return None; }
    let t = template(m);
    let (_, k) = l.iter().find(|(tt, _)| *tt == t)?;
    if k.contains("{c}") {
        let c = ["ingredient", "cookware", "timer"].into_iter().find(|c| m.contains(c))?;
        Some(k.replace("{c}", c))
    } else { Some(k.clone()) }
}

/// (input, extended parser?, expected kind, error?, parse stage?)
const CALIBRATION: &[(&str, bool, &str, bool, bool)] = &[
    ("@{1%g}", false, "empty-name:ingredient", true, true), ("x @zq{1/0%g}", false, "division-by-zero", true, true), ("x @zq{%g}", false, "empty-value", true, true),
    ("x #zpot{1%kg}", false, "cookware-unit", true, true), ("x #za|{}", true, "empty-alias:cookware", true, true), ("x #za|zb|zc{}", true, "multiple-aliases:cookware", true, true),
    ("x @??zq{}", true, "duplicate-modifier", true, true), ("x #&znosuch{}", true, "reference-not-found", true, false), ("#zpp{} and #&zpp{}(a note)", true, "note-in-reference", true, false),
    ("#zpp{} and #&?zpp{}", true, "ref-conflicting-modifiers", true, false), ("x ~zt{5}", false, "timer-missing-unit", true, true), ("x ~ztimer{}", true, "timer-missing-quantity", true, true),
    ("x ~{}", false, "timer-neither-name-nor-quantity", true, true), ("x #@zpot{}", true, "cookware-recipe-modifier", true, true), ("x ~?zt{5%min}", true, "modifiers-not-allowed:timer", true, true),
    ("x ~za|zb{5%min}", true, "alias-not-allowed:timer", true, true), (">> [mode]: components\n\n@zqq{1%g}\n\n>> [mode]: all\n\nadd @&zqq{2%g}", true, "conflicting-ref-quantity", true, false),
    ("x @&(0)zq{}", true, "inter-ref-zero", true, false), ("a\n\nx @&(~0)zq{}", true, "inter-ref-self", true, false), ("x @&(99)zq{}", true, "inter-ref-bounds", true, false),
    ("x @&(x)zq{}", true, "inter-ref-invalid", true, true), ("x @&(~=1)zq{}", true, "inter-ref-wrong-order", true, true), ("x @&(-1)zq{}", true, "inter-ref-sign", true, true),
    ("x @&()zq{}", true, "inter-ref-empty", true, true), ("x @&(99999)zq{}", true, "int-parse", true, true), ("x #&(1)zpot{}", true, "inter-ref-not-allowed:cookware", true, true),
    (">> [mode]: nonsense", true, "config-invalid-value", true, false), (">> : value", false, "empty-metadata-key", true, true), ("x ~zt{some%min}", true, "timer-value-text", true, false),
    ("x ~zt{5%zfoo}", true, "timer-unit-unknown", true, false), ("x ~zt{5%kg}", true, "timer-unit-not-time", true, false), ("x @zq{5%}", false, "empty-unit", false, true),
    ("@zqq{1%g} and @&zqq{some}", true, "text-value-in-ref", false, false), ("@zqq{1%l} and @&zqq{2%kg}", true, "incompatible-units", false, false), ("x @+zq{}", true, "redundant-new", false, false),
    (">> [zz]: 1", true, "config-unknown-key", false, false), (">> [mode]: components\n\nsome words @zq{}\n\n>> [mode]: all", true, "text-in-components-mode", false, false),
    (">> [mode]: text\n\nadd @zq{} now", true, "component-in-text-mode:ingredient", false, false), ("x ~zt{5%min}(note)", false, "note-not-allowed:timer", false, true),
    (">> time: soon", true, "std-unsupported-value", false, false), ("---\ntime: soon\n---\nx", true, "std-unsupported-value", false, false), (">> prep time: 5 min\n>> time: 10 min", true, "time-overridden", false, false),
    ("---\nprep time: 5 min\ntime: 10 min\n---\nx", true, "time-overridden-fm", false, false), (">> a: b", false, "meta-deprecated", false, false), (">> a:", false, "empty-metadata-value", false, true),
    ("x @zq{=1%g}(n) and #zp{=2}", true, "unnecessary-scaling-lock", false, false), ("@zq{} and @&&zq{}", true, "duplicate-modifier", true, true), ("x @&zq{}", true, "reference-not-found", true, false),
    ("x @.5", false, "invalid-single-word-name", false, true), ("x @zq{1.2.3%g}", false, "float-parse", true, true), ("= a = b", false, "section-invalid", false, true),
    ("@zq{} then @&(~1)?zq{}", true, "inter-ref-conflicting-modifiers", true, false), ("x @zq{} and @&zq{}", true, "redundant-ref", false, false), ("x @./znone{}", true, "recipe-not-found", false, false),
];

/// Calibration runs in a SEPARATE process (`harness calibrate`, spawned by `calibrate_isolated`): the parses it makes must not
/// become part of the history of the process whose behaviour is being judged (a process-wide cache filled by "whoever calls
/// first" would otherwise be filled by the calibration, and the check would see a consistent — wrong — world).
pub fn calibrate_isolated() -> Vec<String> {
    let Ok(exe) = std::env::current_exe() else { return vec!["calibration skipped: current_exe unavailable".into()] };
    let Ok(out) = std::process::Command::new(exe).arg("calibrate").output() else { return vec!["calibration skipped: cannot spawn the harness".into()] };
    let mut notes = Vec::new();
    for line in String::from_utf8_lossy(&out.stdout).lines() {
        let parts: Vec<&str> = line.splitn(3, '\t').collect();
        if parts.len() == 3 {
            if let Ok(mut l) = LEARNED.write() { if !l.iter().any(|(t, _)| t == parts[0]) { l.push((parts[0].to_string(), parts[1].to_string())); } }
            notes.push(parts[2].to_string());
        }
    }
    notes
}

/// `harness calibrate`: prints `template<TAB>kind<TAB>note` for every reworded message learned
pub fn calibrate_print() {
    let notes = calibrate();
    if let Ok(l) = LEARNED.read() { for ((t, k), n) in l.iter().zip(notes.iter()) { println!("{}\t{}\t{}", t.replace(['\t', '\n'], " "), k, n.replace(['\t', '\n'], " ")); } }
}

/// Learn the current wording of catalogued diagnostics (see above). Returns notes for the evidence.
pub fn calibrate() -> Vec<String> {
    let mut notes = Vec::new();
    for (input, extended, kind, error, parse) in CALIBRATION {
        let ext = if *extended { cooklang::Extensions::all() } else { cooklang::Extensions::empty() };
        let parser = cooklang::CooklangParser::new(ext, cooklang::Converter::bundled());
        let Ok(report) = crate::util::guarded(|| parser.parse(input).report().clone()) else { continue };
        let kinds: Vec<String> = report.iter().map(diag_kind).collect();
        if kinds.iter().any(|k| k == kind) { continue; }
        let want_sev = if *error { cooklang::error::Severity::Error } else { cooklang::error::Severity::Warning };
        let want_stage = if *parse { cooklang::error::Stage::Parse } else { cooklang::error::Stage::Analysis };
        let cands: Vec<&SourceDiag> = report.iter().zip(kinds.iter()).filter(|(d, k)| k.starts_with("other:") && d.severity == want_sev && d.stage == want_stage).map(|(d, _)| d).collect();
        if cands.len() != 1 { continue; }
        let msg: &str = &cands[0].message;
        let mut k = kind.to_string();
        for c in ["ingredient", "cookware", "timer"] { if let Some(stem) = k.strip_suffix(c) { if stem.ends_with(':') && msg.contains(c) { k = format!("{stem}{{c}}"); } } }
        let t = template(msg);
        if let Ok(mut l) = LEARNED.write() {
            if !l.iter().any(|(tt, _)| *tt == t) {
                l.push((t, k.clone()));
                notes.push(format!("the message of diagnostic kind `{kind}` is not the catalogued text any more (now {msg:?} on input {input:?}); it is recognised by its place (only unrecognised {} of the {} stage in the report of the catalogue construct) — a rewording is presentation, not a violation", if *error { "error" } else { "warning" }, if *parse { "parse" } else { "analysis" }));
            }
        }
    }
    notes
}

pub fn r_diag(d: &SourceDiag) -> String {
    format!("({};{})", diag_kind(d), d.labels.iter().map(|l| r_span(l.0)).collect::<Vec<_>>().join(","))
}

pub fn r_event(ev: &Event) -> String {
    match ev {
        Event::YAMLFrontMatter(t) => format!("FM {}", r_text(t)),
        Event::Metadata { key, value } => format!("MD {} {}", r_text(key), r_text(value)),
        Event::Section { name } => format!("SEC {}", r_opt(name.as_ref(), r_text)),
        Event::Start(BlockKind::Step) => "START step".into(),
        Event::Start(BlockKind::Text) => "START text".into(),
        Event::End(BlockKind::Step) => "END step".into(),
        Event::End(BlockKind::Text) => "END text".into(),
        Event::Text(t) => format!("TXT {}", r_text(t)),
        Event::Ingredient(i) => format!("ING@{}{{m={}@{},i={},n={},a={},q={},note={}}}", r_span(i.span()),
            i.modifiers.bits(), r_span(i.modifiers.span()),
            r_opt(i.intermediate_data.as_ref(), |d| format!("I({} {} {})@{}",
                (d.ref_mode == IntermediateRefMode::Relative) as u8, (d.target_kind == IntermediateTargetKind::Section) as u8, d.val, r_span(d.span()))),
            r_text(&i.name), r_opt(i.alias.as_ref(), r_text), r_opt(i.quantity.as_ref(), r_quantity), r_opt(i.note.as_ref(), r_text)),
        Event::Cookware(c) => format!("CW@{}{{m={}@{},n={},a={},q={},note={}}}", r_span(c.span()),
            c.modifiers.bits(), r_span(c.modifiers.span()), r_text(&c.name), r_opt(c.alias.as_ref(), r_text),
            r_opt(c.quantity.as_ref(), |q| format!("{}@{}", r_qvalue(q), r_span(q.span()))), r_opt(c.note.as_ref(), r_text)),
        Event::Timer(t) => format!("TM@{}{{n={},q={}}}", r_span(t.span()), r_opt(t.name.as_ref(), r_text), r_opt(t.quantity.as_ref(), r_quantity)),
        Event::Error(d) => format!("ERR{}", r_diag(d)),
        Event::Warning(d) => format!("WARN{}", r_diag(d)),
    }
}

pub fn r_events(evs: &[Event]) -> String {
    if evs.is_empty() { "<none>".into() } else { evs.iter().map(r_event).collect::<Vec<_>>().join(" | ") }
}

/// `build_ast` result (mirrors `renderAst` of lean/CookModel/Driver/Tie.lean): blocks, items rendered like the
/// events they were built from, and the report
pub fn r_ast(res: &cooklang::error::PassResult<cooklang::ast::Ast>) -> String {
    use cooklang::parser::{Block, Item};
    let item = |i: &Item| match i {
        Item::Text(t) => r_event(&Event::Text(t.clone())),
        Item::Ingredient(c) => r_event(&Event::Ingredient((**c).clone())),
        Item::Cookware(c) => r_event(&Event::Cookware((**c).clone())),
        Item::Timer(c) => r_event(&Event::Timer((**c).clone())),
    };
    let blocks: Vec<String> = match res.output() {
        None => return "NOOUT".into(),
        Some(ast) => ast.blocks.iter().map(|b| match b {
            Block::FrontMatter(t) => format!("FM {}", r_text(t)),
            Block::Metadata { key, value } => format!("MD {} {}", r_text(key), r_text(value)),
            Block::Section { name } => format!("SEC {}", r_opt(name.as_ref(), r_text)),
            Block::Step { items } => format!("STEP{{{}}}", items.iter().map(item).collect::<Vec<_>>().join(" || ")),
            Block::TextBlock(ts) => format!("TEXTBLOCK{{{}}}", ts.iter().map(r_text).collect::<Vec<_>>().join(" || ")),
        }).collect(),
    };
    format!("blocks=[{}] report=[{}]", blocks.join(" | "), res.report().iter().map(r_diag_full).collect::<Vec<_>>().join(" "))
}

pub fn sev_stage(d: &SourceDiag) -> (&'static str, &'static str) {
    (match d.severity { Severity::Error => "E", Severity::Warning => "W" }, match d.stage { Stage::Parse => "P", Stage::Analysis => "A" })
}

// ---------- analysis results ----------
use cooklang::model::{ComponentRelation, Content, IngredientReferenceTarget, Item};
use cooklang::{ScalableRecipe, ScalableValue, Quantity};

pub fn r_str(s: &str) -> String { if s.is_empty() { "''".into() } else { r_cps(s) } }
fn r_svalue(v: &ScalableValue) -> String {
    match v { ScalableValue::Fixed(v) => format!("fixed:{}", r_value(v)), ScalableValue::Linear(v) => format!("linear:{}", r_value(v)) }
}
fn r_squantity(q: &Quantity<ScalableValue>) -> String { format!("{}%{}", r_svalue(q.value()), r_opt(q.unit(), r_str)) }
fn r_item(i: &Item) -> String {
    match i {
        Item::Text { value } => format!("t:{}", r_str(value)),
        Item::Ingredient { index } => format!("i:{index}"),
        Item::Cookware { index } => format!("c:{index}"),
        Item::Timer { index } => format!("m:{index}"),
        Item::InlineQuantity { index } => format!("q:{index}"),
    }
}
fn r_content(c: &Content) -> String {
    match c {
        Content::Step(s) => format!("STEP({};{})", s.number, s.items.iter().map(r_item).collect::<Vec<_>>().join(",")),
        Content::Text(t) => format!("TEXT({})", r_str(t)),
    }
}
fn r_relation(r: &ComponentRelation) -> String {
    match r {
        ComponentRelation::Definition { referenced_from, defined_in_step } =>
            format!("def[{}]{}", referenced_from.iter().map(|x| x.to_string()).collect::<Vec<_>>().join(","), if *defined_in_step { "+" } else { "-" }),
        ComponentRelation::Reference { references_to } => format!("ref{references_to}"),
    }
}

pub fn external_kind(k: &str) -> bool {
    k == "std-unsupported-value" || k == "time-overridden" || k == "time-overridden-fm" || k.starts_with("other:")
}

pub fn r_diag_full(d: &SourceDiag) -> String { let (s, st) = sev_stage(d); format!("{s}{st}{}", r_diag(d)) }

pub fn r_recipe(r: &ScalableRecipe, with_meta: bool) -> String {
    let secs: Vec<String> = r.sections.iter().map(|s| format!("SECT({};{})", r_opt(s.name.as_deref(), r_str), s.content.iter().map(r_content).collect::<Vec<_>>().join(","))).collect();
    let ings: Vec<String> = r.ingredients.iter().map(|i| {
        let rel = if let Some((t, target)) = i.relation.references_to() {
            format!("ref{t}>{}", match target { IngredientReferenceTarget::Ingredient => "ingredient", IngredientReferenceTarget::Step => "step", IngredientReferenceTarget::Section => "section" })
        } else {
            format!("def[{}]{}>-", i.relation.referenced_from().iter().map(|x| x.to_string()).collect::<Vec<_>>().join(","), if i.relation.is_defined_in_step() == Some(true) { "+" } else { "-" })
        };
        format!("I({};{};{};{};{};{};{})", r_str(&i.name), r_opt(i.alias.as_deref(), r_str), r_opt(i.quantity.as_ref(), r_squantity), r_opt(i.note.as_deref(), r_str),
            r_opt(i.reference.as_ref(), |rf| format!("{}/{}", r_str(&rf.name), rf.components.iter().map(|c| r_str(c)).collect::<Vec<_>>().join("/"))),
            rel, i.modifiers().bits())
    }).collect();
    let cws: Vec<String> = r.cookware.iter().map(|c| format!("C({};{};{};{};{};{})", r_str(&c.name), r_opt(c.alias.as_deref(), r_str), r_opt(c.quantity.as_ref(), r_svalue), r_opt(c.note.as_deref(), r_str), r_relation(&c.relation), c.modifiers().bits())).collect();
    let tms: Vec<String> = r.timers.iter().map(|t| format!("M({};{})", r_opt(t.name.as_deref(), r_str), r_opt(t.quantity.as_ref(), r_squantity))).collect();
    let iqs: Vec<String> = r.inline_quantities.iter().map(|q| format!("IQ({}%{})", r_value(q.value()), r_opt(q.unit(), r_str))).collect();
    let mut s = format!("sections=[{}] ingredients=[{}] cookware=[{}] timers=[{}] inline=[{}]", secs.join(" "), ings.join(" "), cws.join(" "), tms.join(" "), iqs.join(" "));
    if with_meta {
        let m: Vec<String> = r.metadata.map.iter().map(|(k, v)| format!("{}={}", r_str(k.as_str().unwrap_or("?")), r_str(v.as_str().unwrap_or("?")))).collect();
        s.push_str(&format!(" meta=[{}]", m.join(" ")));
    }
    s
}

pub fn r_analysis(res: &cooklang::RecipeResult, has_front_matter: bool) -> String {
    let ds: Vec<String> = res.report().iter().filter(|d| !(has_front_matter && external_kind(&diag_kind(d)))).map(r_diag_full).collect();
    let dstr = format!("diags=[{}]", ds.join(" "));
    match res.output() {
        None => format!("NOOUT {dstr}"),
        Some(r) => {
            let servings = if has_front_matter { String::new() } else {
                // `data` is crate-private: read it from the serde image
                let v = serde_json::to_value(r).ok().and_then(|v| v.get("data").cloned()).unwrap_or(serde_json::Value::Null);
                format!(" servings={}", match v { serde_json::Value::Array(a) => format!("[{}]", a.iter().map(|x| x.to_string()).collect::<Vec<_>>().join(", ")), _ => "-".into() })
            };
            format!("OUT {}{servings} {dstr}", r_recipe(r, !has_front_matter))
        }
    }
}
