CHECKS = [
    {"property_id": "C12",
     "text": "Machine-checked Lean theorems over exact rationals for every value, accuracy, maximum denominator and whole limit: declines non-positive input, exact value = input, error within accuracy, shape of the fraction (table decided on the constants generated from the current source), integers come back plain, printed form denotes the fraction. The f64 instance of the same definitions is compared bit-for-bit with Number::new_approx on ~87k (quick) / millions (thorough) of calls, and the postconditions are evaluated on the real results.",
     "note": "Trusted: Lean kernel; the constant scraper; IEEE rounding is outside the theorems (bit-exact correspondence only); std float primitives assumed identical in Lean and Rust.",
     "technique": "Lean 4 proof over a hand-written model (Rat instance) + bit-exact differential correspondence of the Float instance with the Rust code"},
]
CHECKS.append({"property_id": "C04",
     "text": "Lean theorems for every input, every character-class table and every start offset: token spans tile the input exactly, tokens are non-empty runs of whole characters on char boundaries, the text assembled from any run of adjacent tokens has non-empty fragments that equal the input slice at their span, in increasing non-overlapping order, and append_fragment's assertion never fires. The complete parser model (lexer, front matter, block splitter, step/quantity/section/metadata/text-block parsers with every diagnostic label) is compared event by event, span by span, with PullParser on ~45k (quick) / ~1M (thorough) inputs under all 256 extension patterns; the oracle checks bounds, char boundaries, fragment faithfulness, event order and that SourceReport::write succeeds on every report.",
     "note": "Trusted: Lean kernel; generated char table (produced by the real lexer); correspondence generators. Span arithmetic of block parsers/analysis labels is tested by correspondence + oracle, not yet proved.",
     "technique": "Lean 4 proof over a hand-written parser model (lexer tiling, text assembly) + differential correspondence of all event spans with the Rust parser"})
ALL = ["C%02d" % i for i in range(1, 20)]
_claimed = {c["property_id"] for c in CHECKS}
NOT_APPLICABLE = [{"property_id": p, "reason": "not built yet in this session (work in progress; the technique applies, see DESIGN.md §6)"} for p in ALL if p not in _claimed]
