CHECKS = [
    {"property_id": "C11",
     "text": "Machine-checked Lean theorems over a hand-written model of src/aisle.rs (text as List Char, byte offsets) for ALL inputs: parse never reaches a panic site and every error span is a slice of the input on char boundaries carrying the reported text; a successful parse equals an independent right-fold specification of the line structure, names are trimmed, category and ingredient names are duplicate-free; parse(write(c)) = c for every parsed c (via a well-formedness predicate that characterises the range of parse); lookup returns category and first name. The model is compared with the real parse/write/ingredients_info on every string of length <= 5 (quick) / <= 6 (thorough) over the 13-symbol alphabet and on random structured files, and the property's oracle is evaluated on the real results.",
     "note": "Trusted: Lean kernel; the hand-written model of std string routines (lines, split, trim offsets, HashSet), tied by exhaustive short-string correspondence; the White_Space table is checked against std in every run.",
     "technique": "Lean 4 proof over a hand-written model + exhaustive/random differential correspondence with the Rust code + executable oracle on the implementation"},
    {"property_id": "C12",
     "text": "Machine-checked Lean theorems over exact rationals for every value, accuracy, maximum denominator and whole limit: declines non-positive input, exact value = input, error within accuracy, shape of the fraction (table decided on the constants generated from the current source), integers come back plain, printed form denotes the fraction. The f64 instance of the same definitions is compared bit-for-bit with Number::new_approx on ~87k (quick) / millions (thorough) of calls, and the postconditions are evaluated on the real results.",
     "note": "Trusted: Lean kernel; the constant scraper; IEEE rounding is outside the theorems (bit-exact correspondence only); std float primitives assumed identical in Lean and Rust.",
     "technique": "Lean 4 proof over a hand-written model (Rat instance) + bit-exact differential correspondence of the Float instance with the Rust code"},
]
ALL = ["C%02d" % i for i in range(1, 20)]
_claimed = {c["property_id"] for c in CHECKS}
NOT_APPLICABLE = [{"property_id": p, "reason": "not built yet in this session (work in progress; the technique applies, see DESIGN.md §6)"} for p in ALL if p not in _claimed]
