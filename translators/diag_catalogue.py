#!/usr/bin/env python3
"""Static completeness cross-check for C07: every diagnostic message the Rust source can emit through the
`error!` / `warning!` macros must be known to the harness' message->kind table (harness/src/render.rs), which is the
vocabulary the Lean model speaks.  A message that is not known is reported as a note in the evidence
(`note:...` tokens on stdout, turned into evidence notes by ./check); it is not a violation by itself: inputs that
trigger it make model and implementation disagree and are judged there.

usage: diag_catalogue.py <repo>
"""
import os, re, sys

REPO = sys.argv[1] if len(sys.argv) > 1 else "/repo"
ROOT = os.path.dirname(os.path.dirname(os.path.abspath(__file__)))


def note(t):
    print("note:" + re.sub(r"\s+", "_", t))


try:
    render = open(os.path.join(ROOT, "harness/src/render.rs")).read()
except OSError:
    note("diag_catalogue: cannot read harness/src/render.rs")
    sys.exit(0)
table = re.findall(r'\("((?:[^"\\]|\\.)*)",\s*"[a-z0-9:-]+"\)', render)
generic = re.findall(r'format!\("((?:[^"\\]|\\.)*)"\)\s*\{\s*return format!', render)   # `Invalid {c}: ...` families
generic_rx = [re.compile("^" + re.escape(g).replace(r"\{c\}", r"(?:\{\w*\}|ingredient|cookware|timer)") + "$") for g in generic]

msgs = set()
for dirpath, _, files in os.walk(os.path.join(REPO, "src")):
    for f in files:
        if not f.endswith(".rs") or f == "error.rs":
            continue
        src = open(os.path.join(dirpath, f)).read()
        src = re.sub(r"//[^\n]*", "", src)
        src = re.sub(r"tracing::\w+!", "tracing_log", src)      # log lines are not diagnostics
        for m in re.finditer(r"\b(?:error|warning)!\s*\(\s*(?:format!\s*\(\s*)?\"((?:[^\"\\]|\\.)*)\"", src):
            msgs.add(m.group(1))
        # messages kept in constants and passed to the macros by name
        for m in re.finditer(r"const \w+: &str = \"((?:[^\"\\]|\\.)*)\";", src):
            if re.search(r"\b(?:error|warning)!\s*\(\s*(?:format!\s*\(\s*\"\{)?\w*" + re.escape(re.search(r"const (\w+)", m.group(0)).group(1)), src):
                msgs.add(m.group(1))


def known(msg):
    lit = msg.split("{")[0]
    if any(lit.startswith(p) or (p.startswith(lit) and "{" in msg) for p in table if p):
        return True
    if any(rx.match(msg) for rx in generic_rx):
        return True
    # `{INVALID}: value sign` style: the constant prefix is substituted at run time
    if msg.startswith("{") and "}" in msg:
        tail = msg.split("}", 1)[1]
        return any(tail in p for p in table)
    return False


unknown = sorted(m for m in msgs if not known(m))
note(f"diag_catalogue: {len(msgs)} diagnostic messages found in the source, {len(msgs) - len(unknown)} known to the model's vocabulary")
for u in unknown:
    note("diagnostic message in the source that the model's vocabulary does not know: " + u)
print("unchanged")
