#!/usr/bin/env python3
"""Translate <repo>/units.toml into lean/CookModel/Gen/Units.lean.

The output is the *description* of `Converter::bundled()` the Lean model starts from:
all units in the id order of `ConverterBuilder` (file order, then the SI expansions made by
`finish`), every ratio/difference as `Const` (exact rational of the decimal written in the file +
the f64 bit pattern the `toml` crate / rustc give it; Python's float() is correctly rounded too),
the best lists with their names resolved (unsorted: sorting and thresholds are part of the model),
and the layered fractions configuration resolved as `build_fractions_config` does.

Usage: gen_units.py <repo> [out.lean [units.toml [namespace]]]; prints `changed` or `unchanged`.
(paths relative to the verif checkout; default: <repo>/units.toml -> lean/CookModel/Gen/Units.lean,
namespace Cook.Gen)
Exit 3 if the file uses something this translator does not understand (e.g. `extend`).
"""
import os, re, struct, sys, tomllib
from fractions import Fraction

REPO = sys.argv[1] if len(sys.argv) > 1 else "/repo"
ROOT = os.path.dirname(os.path.dirname(os.path.abspath(__file__)))
OUT = os.path.join(ROOT, sys.argv[2]) if len(sys.argv) > 2 else os.path.join(ROOT, "lean/CookModel/Gen/Units.lean")
TOML = os.path.join(ROOT, sys.argv[3]) if len(sys.argv) > 3 and sys.argv[3] != "@repo" else os.path.join(REPO, "units.toml")
NS = sys.argv[4] if len(sys.argv) > 4 else "Gen"
# further layers (fraction settings only) stacked on the first file, as `ConverterBuilder::with_units_file` called again
EXTRA_LAYERS = [os.path.join(ROOT, a) for a in sys.argv[5:]]

QUANTITIES = ["volume", "mass", "length", "temperature", "time"]   # enum order of PhysicalQuantity
SIPREFIX = ["kilo", "hecto", "deca", "deci", "centi", "milli"]      # enum order of SIPrefix
U32_MAX = 4294967295


def fail(msg):
    print(f"gen_units: {msg}", file=sys.stderr)
    sys.exit(3)


class Dec:
    """a decimal literal: exact value and its f64"""
    def __init__(self, text):
        t = str(text).replace("_", "")
        self.rat = Fraction(t)
        self.f = float(t)


def num(v, what):
    if isinstance(v, Dec):
        return v
    if isinstance(v, bool) or not isinstance(v, int):
        fail(f"{what}: expected a number, got {v!r}")
    return Dec(v)


def bits64(f):
    return struct.unpack(">Q", struct.pack(">d", f))[0]


def rat_lit(fr):
    return f"{fr.numerator}" if fr.denominator == 1 else f"{fr.numerator}/{fr.denominator}"


def const(rat, f):
    r = rat_lit(rat)
    if rat < 0:
        r = f"({r})"
    return f"⟨{r}, 0x{bits64(f):016x}⟩"


def chars(s):
    def one(c):
        if c.isascii() and (c.isalnum() or c in " ._-"):
            return f"'{c}'"
        if ord(c) < 0x80:
            return "'\\x%02x'" % ord(c)
        if ord(c) <= 0xffff and not (0xd800 <= ord(c) <= 0xdfff):
            return "'\\u%04x'" % ord(c)
        return f"'{c}'"
    return "[" + ", ".join(one(c) for c in s) + "]"


def strs(xs):
    return "[" + ", ".join(chars(x) for x in xs) + "]"


def str_list(v, what):
    if not isinstance(v, list) or not all(isinstance(x, str) for x in v):
        fail(f"{what}: expected a list of strings")
    return v


FLT = r"([0-9][0-9_]*(?:\.[0-9_]*)?(?:[eE][+-]?[0-9_]+)?)(?:_?f(?:32|64))?"
INT = r"(u32::MAX|0x[0-9a-fA-F_]+|[0-9][0-9_]*)(?:_?u(?:8|16|32|64|size))?"


def parse_int(tok):
    return U32_MAX if tok == "u32::MAX" else int(tok.replace("_", ""), 0)


def src_unreadable(what):
    """a constant of the Rust source is not spelled in a way this translator understands: that is not a finding
    about the code; keep the committed output (the correspondence run is then the only tie) and say so"""
    if os.path.exists(OUT):
        print("unchanged unreadable:" + re.sub(r"\s+", "_", what))
        sys.exit(0)
    fail(f"cannot find {what} and there is no committed output")


def scrape(path, pattern, what):
    try:
        src = open(os.path.join(REPO, path)).read()
    except OSError:
        src_unreadable(what)
    src = re.sub(r"//[^\n]*", "", re.sub(r"/\*.*?\*/", "", src, flags=re.S))
    m = re.search(pattern, src, re.S)
    if not m:
        src_unreadable(what)
    return m


# ---- constants that live in the Rust source, not in units.toml
uf_rs = "src/convert/units_file.rs"
prefix_ratio = {}
for p in SIPREFIX:
    m = scrape(uf_rs, r"SIPrefix::" + p.capitalize() + r"\s*=>\s*" + FLT + r"\s*,", f"ratio of SI prefix {p}")
    prefix_ratio[p] = Dec(m.group(1))
m = scrape("src/convert/mod.rs",
           r"impl Default for FractionsConfig \{.*?enabled:\s*(true|false),\s*accuracy:\s*" + FLT + r",\s*max_denominator:\s*" + INT + r",\s*max_whole:\s*" + INT + r",",
           "FractionsConfig::default")
DEF_ENABLED = m.group(1) == "true"
DEF_ACC = Dec(m.group(2))
DEF_MAX_DEN = parse_int(m.group(3))
DEF_MAX_WHOLE = parse_int(m.group(4))
m = scrape(uf_rs, r"unwrap_or\(d\.accuracy\)\s*\.clamp\(\s*" + FLT + r"\s*,\s*" + FLT + r"\s*\)", "accuracy clamp")
ACC_LO, ACC_HI = float(m.group(1).replace("_", "")), float(m.group(2).replace("_", ""))
m = scrape(uf_rs, r"unwrap_or\(d\.max_denominator\)\s*\.clamp\(\s*" + INT + r"\s*,\s*" + INT + r"\s*\)", "max_denominator clamp")
DEN_LO, DEN_HI = parse_int(m.group(1)), parse_int(m.group(2))

# ---- the file
try:
    data = tomllib.load(open(TOML, "rb"), parse_float=Dec)
except Exception as e:  # noqa: BLE001
    fail(f"units.toml does not parse: {e}")
known_top = {"default_system", "si", "fractions", "extend", "quantity"}
if set(data) - known_top:
    fail(f"unknown top-level keys {sorted(set(data) - known_top)}")
if data.get("extend"):
    fail("units.toml has an [extend] block (build.rs does not support it either)")

default_system = data.get("default_system", "metric")
if default_system not in ("metric", "imperial"):
    fail(f"bad default_system {default_system!r}")

si = data.get("si", {})
si_prefixes = si.get("prefixes")
si_symbol_prefixes = si.get("symbol_prefixes")

units = []      # dicts: names symbols aliases ratio(Fraction) ratio_f diff diff_f pq system expand_si
index = {}


def add_unit(u):
    uid = len(units)
    keys = u["names"] + u["symbols"] + u["aliases"]
    if not keys:
        fail(f"unit without names or symbols in {u['pq']} (the builder rejects it)")
    for k in keys:
        if not k.strip():
            fail("empty unit key (the builder rejects it)")
        if k in index:
            fail(f"duplicate unit key {k!r} (the builder rejects it)")
        index[k] = uid
    units.append(u)
    return uid


best_names = {}
for gi, g in enumerate(data.get("quantity", [])):
    q = g.get("quantity")
    if q not in QUANTITIES:
        fail(f"quantity group {gi}: bad quantity {q!r}")
    if set(g) - {"quantity", "best", "units"}:
        fail(f"quantity group {q}: unknown keys {sorted(set(g) - {'quantity', 'best', 'units'})}")

    def add_entries(entries, system):
        for e in entries:
            if set(e) - {"names", "name", "symbols", "symbol", "aliases", "alias", "ratio", "difference", "expand_si"}:
                fail(f"unit entry in {q}: unknown keys")
            r = num(e.get("ratio"), f"ratio of a {q} unit")
            d = num(e.get("difference", 0), f"difference of a {q} unit")
            add_unit({"names": str_list(e.get("names", e.get("name")), "names"),
                      "symbols": str_list(e.get("symbols", e.get("symbol")), "symbols"),
                      "aliases": str_list(e.get("aliases", e.get("alias", [])), "aliases"),
                      "ratio": r.rat, "ratio_f": r.f, "diff": d.rat, "diff_f": d.f,
                      "pq": q, "system": system, "expand_si": bool(e.get("expand_si", False))})
    us = g.get("units")
    if isinstance(us, list):
        add_entries(us, None)
    elif isinstance(us, dict):
        if set(us) - {"metric", "imperial", "unspecified"}:
            fail(f"units of {q}: unknown keys")
        add_entries(us.get("metric", []), "metric")
        add_entries(us.get("imperial", []), "imperial")
        add_entries(us.get("unspecified", []), None)
    elif us is not None:
        fail(f"units of {q}: neither a list nor a table")
    b = g.get("best")
    if b is not None:
        if isinstance(b, list):
            if not b:
                fail(f"empty best list for {q}")
            best_names[q] = ("unified", str_list(b, "best"))
        elif isinstance(b, dict) and set(b) == {"metric", "imperial"}:
            if not b["metric"] or not b["imperial"]:
                fail(f"empty best list for {q}")
            best_names[q] = ("bySystem", str_list(b["metric"], "best"), str_list(b["imperial"], "best"))
        else:
            fail(f"best of {q}: neither a list nor a metric/imperial table")

# `finish`: SI expansion in id order of the units present before it
for uid in range(len(units)):
    u = units[uid]
    if not u["expand_si"]:
        continue
    if si_prefixes is None or si_symbol_prefixes is None:
        fail("expand_si used without SI prefixes")
    for p in SIPREFIX:
        pr = prefix_ratio[p]
        add_unit({"names": [pp + n for pp in str_list(si_prefixes[p], "si prefix") for n in u["names"]],
                  "symbols": [pp + n for pp in str_list(si_symbol_prefixes[p], "si prefix") for n in u["symbols"]],
                  "aliases": [],
                  "ratio": u["ratio"] * pr.rat, "ratio_f": u["ratio_f"] * pr.f,
                  "diff": u["diff"], "diff_f": u["diff_f"],
                  "pq": u["pq"], "system": u["system"], "expand_si": False})


def resolve(names, q):
    ids = []
    for n in names:
        if n not in index:
            fail(f"best unit {n!r} of {q} is not a known unit")
        ids.append(index[n])
    return ids


best = {}
for q in QUANTITIES:
    if q not in best_names:
        fail(f"no best units given for {q} (the builder rejects it)")
    b = best_names[q]
    best[q] = (b[0],) + tuple(resolve(x, q) for x in b[1:])


# ---- fractions (one layer), as `build_fractions_config`
def helper(v, what):
    """FractionsConfigWrapper::get → dict with optional fields"""
    if isinstance(v, bool):
        return {"enabled": v}
    if not isinstance(v, dict) or set(v) - {"enabled", "accuracy", "max_denominator", "max_whole"}:
        fail(f"fractions config {what}: bad shape")
    h = {}
    if "enabled" in v:
        h["enabled"] = bool(v["enabled"])
    if "accuracy" in v:
        h["accuracy"] = num(v["accuracy"], "accuracy")
    if "max_denominator" in v:
        h["max_denominator"] = int(v["max_denominator"])
    if "max_whole" in v:
        h["max_whole"] = int(v["max_whole"])
    return h


def merge(a, b):
    r = dict(b)
    r.update(a)
    return r


def f32(x):
    return struct.unpack(">f", struct.pack(">f", x))[0]


def define(h):
    acc = f32(h["accuracy"].f) if "accuracy" in h else f32(DEF_ACC.f)
    acc = min(max(acc, ACC_LO), ACC_HI)
    den = min(max(h.get("max_denominator", DEF_MAX_DEN), DEN_LO), DEN_HI)
    return {"enabled": h.get("enabled", DEF_ENABLED), "accuracy": acc, "max_den": den,
            "max_whole": h.get("max_whole", DEF_MAX_WHOLE)}


fr_layers = [data.get("fractions", {})]
for path in EXTRA_LAYERS:
    try:
        extra = tomllib.load(open(path, "rb"), parse_float=Dec)
    except Exception as e:  # noqa: BLE001
        fail(f"layer {path} does not parse: {e}")
    if set(extra) - {"fractions"}:
        fail(f"layer {path}: only a [fractions] table is supported in a stacked layer")
    fr_layers.append(extra.get("fractions", {}))
# three passes over the layers, as `build_fractions_config`: a later layer's group entry REPLACES the earlier one;
# per-unit entries are resolved last, against the final group settings
f_all = f_metric = f_imperial = None
f_quantity = {}
for fr in fr_layers:
    if set(fr) - {"all", "metric", "imperial", "quantity", "unit"}:
        fail("fractions: unknown keys")
    if "all" in fr:
        f_all = helper(fr["all"], "all")
for fr in fr_layers:
    if "metric" in fr:
        f_metric = helper(fr["metric"], "metric")
    if "imperial" in fr:
        f_imperial = helper(fr["imperial"], "imperial")
    for q, v in fr.get("quantity", {}).items():
        if q not in QUANTITIES:
            fail(f"fractions.quantity: bad quantity {q!r}")
        f_quantity[q] = helper(v, q)
f_unit = {}
for li, fr in enumerate(fr_layers):
  seen_in_layer = set()
  for key, v in fr.get("unit", {}).items():
    if key not in index:
        fail(f"fractions.unit: unknown unit {key!r}")
    uid = index[key]
    if uid in seen_in_layer:
        fail(f"fractions.unit: two keys for the same unit ({key!r}); the result depends on hash-map order")
    seen_in_layer.add(uid)
    u = units[uid]
    layers = [f_quantity.get(u["pq"]),
              {"metric": f_metric, "imperial": f_imperial}.get(u["system"]) if u["system"] else None,
              f_all]
    inherit = None
    for layer in layers:
        if layer is not None:
            inherit = layer if inherit is None else merge(inherit, layer)
    cfg = helper(v, key)
    if inherit is not None:
        cfg = merge(cfg, inherit)
    f_unit[uid] = define(cfg)


# ---- output
def q_lean(q):
    return "." + q


def sys_lean(s):
    return "none" if s is None else f"(some .{s})"


def cfg_lean(c):
    acc = c["accuracy"]
    return (f"{{ enabled := {'true' if c['enabled'] else 'false'}, accuracy := {const(Fraction(acc), acc)}, "
            f"maxDen := {c['max_den']}, maxWhole := {c['max_whole']} }}")


def opt_cfg(h):
    return "none" if h is None else f"(some {cfg_lean(define(h))})"


out = ["import CookModel.Num.Units",
       f"/- GENERATED by /verif/translators/gen_units.py from {'/repo/units.toml' if len(sys.argv) <= 3 or sys.argv[3] == '@repo' else sys.argv[3]}{''.join(' + layer ' + a for a in sys.argv[5:])} (+ the SI prefix ratios of",
       "   src/convert/units_file.rs and FractionsConfig::default of src/convert/mod.rs). Do not edit. -/",
       f"namespace Cook.{NS}"]
for uid, u in enumerate(units):
    out.append(f"def unit{uid} : Unit Const := {{ id := {uid}, names := {strs(u['names'])}, symbols := {strs(u['symbols'])}, "
               f"aliases := {strs(u['aliases'])}, ratio := {const(u['ratio'], u['ratio_f'])}, "
               f"difference := {const(u['diff'], u['diff_f'])}, pq := {q_lean(u['pq'])}, system := {sys_lean(u['system'])} }}")
out.append("def allUnits : List (Unit Const) := [" + ", ".join(f"unit{i}" for i in range(len(units))) + "]")


def ids_lean(ids):
    return "[" + ", ".join(f"unit{i}" for i in ids) + "]"


out.append("def bestSpec : PhysQ → BestSpec Const")
for q in QUANTITIES:
    b = best[q]
    if b[0] == "unified":
        out.append(f"  | {q_lean(q)} => .unified {ids_lean(b[1])}")
    else:
        out.append(f"  | {q_lean(q)} => .bySystem {ids_lean(b[1])} {ids_lean(b[2])}")
out.append("def fractions : Fractions Const := {")
out.append(f"  all := {opt_cfg(f_all)},")
out.append(f"  metric := {opt_cfg(f_metric)},")
out.append(f"  imperial := {opt_cfg(f_imperial)},")
out.append("  quantity := [" + ", ".join(f"({q_lean(q)}, {cfg_lean(define(f_quantity[q]))})" for q in QUANTITIES if q in f_quantity) + "],")
out.append("  unit := [" + ", ".join(f"({uid}, {cfg_lean(f_unit[uid])})" for uid in sorted(f_unit)) + "] }")
out.append(f"def defaultSystem : System := .{default_system}")
out.append("/-- `FractionsConfig::default()` -/")
out.append(f"def defaultCfg : FracCfg Const := {cfg_lean(define({}))}")
out.append("def bundledDesc : ConverterDesc Const :=")
out.append("  { allUnits := allUnits, best := bestSpec, fractions := fractions, defaultSystem := defaultSystem }")
out.append(f"end Cook.{NS}")
text = "\n".join(out) + "\n"
try:
    old = open(OUT).read()
except FileNotFoundError:
    old = None
if old != text:
    os.makedirs(os.path.dirname(OUT), exist_ok=True)
    open(OUT, "w").write(text)
    print("changed")
else:
    print("unchanged")
