#!/usr/bin/env python3
"""prep_bindings.py REPO HARNESS_DIR

Pre-build hook of the checks that need the FFI crate (C19).

`$REPO/bindings` is a `cdylib`/`staticlib` crate, so the harness cannot depend on it as it is.
This script makes/refreshes a scratch copy under `HARNESS_DIR/target/bindings_copy`
(HARNESS_DIR defaults to the `harness` directory of the checkout this script lives in):
  * `src/` copied byte for byte from the working tree (the code under test is NOT altered),
  * `Cargo.toml` copied with three edits: the PACKAGE is renamed `cooklang-bindings-copy` (the library
    keeps its crate name `cooklang_bindings`; without the rename `--config paths=[REPO]` would
    silently replace the copy by REPO/bindings itself, which has no rlib), `"lib"` added to
    `crate-type`, and the relative
    `cooklang = { path = ".." }` dependency rewritten to the absolute path that the harness' own
    manifest names for `cooklang` (/repo).  It has to be the SAME path: two path packages
    `cooklang 0.16.0` at different places collide in the lock file.  For a scratch tree
    (VERIF_REPO) ./check redirects that path with `--config paths=[REPO]`, which applies to the
    harness' and to the copy's dependency alike; the copy's sources always come from REPO/bindings.
Files are only rewritten when their content changed, so cargo's fingerprints stay valid.
The harness depends on the copy as an OPTIONAL dependency (feature `ffi`).
"""
import os, re, shutil, sys

REPO = os.path.abspath(sys.argv[1] if len(sys.argv) > 1 else "/repo")
HERE = os.path.dirname(os.path.dirname(os.path.abspath(__file__)))   # the verif checkout this script lives in
HARNESS = os.path.abspath(sys.argv[2] if len(sys.argv) > 2 else os.path.join(HERE, "harness"))
SRC = os.path.join(REPO, "bindings")
DST = os.path.join(HARNESS, "target", "bindings_copy")


def fail(msg):
    print(f"prep_bindings: {msg}", file=sys.stderr)
    sys.exit(3)


def write_if_changed(path, data):
    try:
        if open(path, "rb").read() == data:
            return False
    except FileNotFoundError:
        pass
    os.makedirs(os.path.dirname(path), exist_ok=True)
    with open(path, "wb") as f:
        f.write(data)
    return True


def main():
    man = os.path.join(SRC, "Cargo.toml")
    if not os.path.isfile(man):
        fail(f"{man} not found")
    text = open(man).read()
    text2, n1 = re.subn(r'(crate-type\s*=\s*\[)([^\]]*)\]',
                        lambda m: m.group(0) if '"lib"' in m.group(2) else f'{m.group(1)}{m.group(2).rstrip()}, "lib"]', text, count=1)
    if n1 != 1:
        fail("no crate-type line in bindings/Cargo.toml")
    hm = re.search(r'^cooklang\s*=\s*\{\s*path\s*=\s*"([^"]+)"', open(os.path.join(HARNESS, "Cargo.toml")).read(), re.M)
    if not hm:
        fail("no cooklang path dependency in the harness manifest")
    core = hm.group(1)
    text3, n2 = re.subn(r'cooklang\s*=\s*\{\s*path\s*=\s*"\.\."\s*\}', f'cooklang = {{ path = "{core}" }}', text2, count=1)
    if n2 != 1:
        fail('no `cooklang = { path = ".." }` dependency in bindings/Cargo.toml')
    text4, n3 = re.subn(r'^name\s*=\s*"cooklang-bindings"\s*$', 'name = "cooklang-bindings-copy"', text3, count=1, flags=re.M)
    if n3 != 1:
        fail("package name of bindings/Cargo.toml is not cooklang-bindings")
    text5, n4 = re.subn(r'^\[lib\]\s*$', '[lib]\nname = "cooklang_bindings"', text4, count=1, flags=re.M)
    if n4 != 1:
        fail("no [lib] section in bindings/Cargo.toml")
    text3 = text5
    changed = []
    if write_if_changed(os.path.join(DST, "Cargo.toml"), text3.encode()):
        changed.append("Cargo.toml")
    keep = {"Cargo.toml"}
    extra = os.path.join(SRC, "uniffi.toml")
    if os.path.isfile(extra):
        keep.add("uniffi.toml")
        if write_if_changed(os.path.join(DST, "uniffi.toml"), open(extra, "rb").read()):
            changed.append("uniffi.toml")
    for d, _, fs in os.walk(os.path.join(SRC, "src")):
        for f in fs:
            p = os.path.join(d, f)
            rel = os.path.relpath(p, SRC)
            keep.add(rel)
            if write_if_changed(os.path.join(DST, rel), open(p, "rb").read()):
                changed.append(rel)
    # remove files that disappeared from the working tree
    for d, _, fs in os.walk(DST):
        if os.path.relpath(d, DST).split(os.sep)[0] == "target":
            continue
        for f in fs:
            rel = os.path.relpath(os.path.join(d, f), DST)
            if rel not in keep and rel != "Cargo.lock":
                os.remove(os.path.join(d, f))
                changed.append("-" + rel)
    print("bindings_copy:", "refreshed " + " ".join(changed) if changed else "up to date")


if __name__ == "__main__":
    main()
