# Regenerates lean/CookModel/Lemmas/SpansFrag.lean (C04 row 5b): the sweep part is derived from Lemmas/SpansEv.lean (the document-level part is literal text below):
# the declarations that depend on `TextOK` are copied with the suffix `O` and `TextOKO` (TextOK + fragment order).
# Not part of ./check; run by hand after a change of SpansEv.lean:  python3 translators/gen_spans_frag.py
import re,sys,os
L=os.path.join(os.path.dirname(os.path.abspath(__file__)),'..','lean','CookModel','Lemmas')
src=open(os.path.join(L,'SpansEv.lean')).read().split('\n')
# split into chunks at column-0 starts
starts=[i for i,l in enumerate(src) if re.match(r'^(theorem |def |structure |abbrev |/-- |/-! |variable |end |namespace |set_option|import|instance|/-$|/-\s)',l)]
chunks=[]
for a,b in zip(starts,starts[1:]+[len(src)]):
    chunks.append(src[a:b])
# merge doc comment chunks with the following decl
merged=[]
i=0
while i<len(chunks):
    c=chunks[i]
    if c[0].startswith('/-- ') and i+1<len(chunks):
        merged.append(c+chunks[i+1]); i+=2
    else:
        merged.append(c); i+=1
def declname(c):
    for l in c:
        m=re.match(r'^(theorem|def|structure|abbrev) ([^\s:({\[]+)',l)
        if m: return m.group(1),m.group(2)
    return None,None
decls=[(declname(c),c) for c in merged]
tainted_roots={'TextOK'}   # identifiers (root, word-boundary) that are tainted
tainted_last=set()         # last components of dotted names with external root
copy=[False]*len(decls)
def mentions(text):
    for r in tainted_roots:
        if re.search(r'(?<![\w.])'+re.escape(r)+r'\b',text): return True
    for r in tainted_last:
        if re.search(r'\.'+re.escape(r)+r'\b',text): return True
    return False
changed=True
infile_roots={n.split('.')[0] for (k,n),c in decls if n}
while changed:
    changed=False
    for idx,((k,n),c) in enumerate(decls):
        if not n or copy[idx]: continue
        text='\n'.join(c)
        # strip comments roughly
        text2=re.sub(r'/--.*?-/','',text,flags=re.S)
        if mentions(text2):
            copy[idx]=True; changed=True
            parts=n.split('.')
            if len(parts)==1:
                tainted_roots.add(n)
            else:
                root=parts[0]
                if root in tainted_roots:
                    pass
                else:
                    tainted_last.add(parts[-1]); 
print('roots',sorted(tainted_roots),file=sys.stderr)
print('last',sorted(tainted_last),file=sys.stderr)
out=[]
for idx,((k,n),c) in enumerate(decls):
    if copy[idx]:
        out.append('\n'.join(c))
body='\n'.join(out)
# renames
for r in sorted(tainted_roots,key=len,reverse=True):
    body=re.sub(r'(?<![\w.])'+re.escape(r)+r'\b(?!\')',r+'O',body)
for r in tainted_last:
    body=re.sub(r'\.'+re.escape(r)+r'\b',  '.'+r+'O',body)
# RunIn.text -> RunIn.textO for the known receivers
body=re.sub(r'\b(hr|hr1|hr2|hunit|hname)\.text\b',r'\1.textO',body)
BODY=body
print(sum(copy),'decls copied of',len(decls),file=sys.stderr)
print(len(body.split('\n')),'lines',file=sys.stderr)

# --- post-processing and assembly
body=BODY
# undo the generic '.bound' rename, then redo it only after the declaration of GE.bound
body=body.replace('.boundO','.bound')
k=body.index('theorem GE.bound')
body=body[:k]+re.sub(r'\.bound\b','.boundO',body[k:])
header='''import CookModel.Lemmas.SpansDoc
import CookModel.Lemmas.SpansFront
import CookModel.Lemmas.SpansMeta
/-
  C04, row 5b: the fragments of every text of every event are in increasing order, pairwise disjoint and
  non-empty — at document level.

  `TextOK` (Lemmas/Spans.lean) says that the span of a text is made of boundaries and that each fragment
  is the source slice at its offset; it does not say how the fragments of one text lie to each other.
  `TextOKO` adds `TextOrd` (pairwise `f.stop ≤ g.offset`, no empty fragment).  Every text of every event
  is assembled by `BlockParser::text` from a run of adjacent tokens (`RunIn.text`), which gives both
  (`RunIn.textO`), so the sweep of Lemmas/SpansEv.lean goes through with `TextOKO` in the place of
  `TextOK`.  The section "sweep" below IS that text: the declarations of SpansEv.lean that mention
  `TextOK` directly or indirectly, copied mechanically with the suffix `O` on every copied name and
  `RunIn.text` replaced by `RunIn.textO`; everything that does not depend on `TextOK` (`GE`, `Ctx`, the
  number parsers, the modifier parsers, `EvIn`, `Ev.srcSpan`, …) is used from SpansEv.lean as it is.
-/
set_option linter.unusedSectionVars false
set_option linter.unusedSimpArgs false
set_option linter.unusedVariables false
set_option linter.deprecated false
namespace Cook

variable {α : Type} [Arith α]

/-- the fragments of a text lie in increasing order without overlapping, and none is empty -/
def TextOrd (t : Text) : Prop :=
  t.frags.Pairwise (fun f g => f.stop ≤ g.offset) ∧ ∀ f ∈ t.frags, f.text ≠ []

/-- `TextOK` and `TextOrd` -/
def TextOKO (off : Nat) (w : List Char) (t : Text) : Prop :=
  SpanOK off w t.span ∧ ((∀ f ∈ t.frags, SliceAt off w f.offset f.text) ∧ TextOrd t)

theorem TextOKO.textOK {off : Nat} {w : List Char} {t : Text} (h : TextOKO off w t) : TextOK off w t := ⟨h.1, h.2.1⟩
theorem TextOKO.ord {off : Nat} {w : List Char} {t : Text} (h : TextOKO off w t) : TextOrd t := h.2.2

/-- the text assembled from a run of adjacent tokens of the source: `TextOK`, and its fragments are ordered,
    disjoint and non-empty -/
theorem RunIn.textO {off : Nat} {w : List Char} {o : Nat} {l : List Tok} (h : RunIn off w o l) :
    TextOKO off w (buildText o l) := by
  have hfi := buildText_FI o l h.run.1 h.run.2
  exact ⟨h.text.1, h.text.2, hfi.ordered, fun f hf => (hfi.frags f hf).1⟩

theorem fragO_fromStr (off : Nat) (w : List Char) (y : List Char) (o : Nat)
    (h : TextOK off w (Text.fromStr y o)) : TextOKO off w (Text.fromStr y o) := by
  refine ⟨h.1, h.2, ?_⟩
  unfold Text.fromStr Text.appendStr Text.appendFrag TextOrd
  cases y with
  | nil => simp [Text.empty, Text.span, Span.pos]
  | cons c r => simp [Text.empty, Text.span, Span.pos]

variable {off : Nat} {w : List Char} {Pv : Array (Ev α) → Prop} {ts : List Tok} {e : Ext} {s : BP α}

/-! ### sweep (mechanical copy of the `TextOK`-dependent part of Lemmas/SpansEv.lean) -/

'''
footer='''

/-! ### document level -/

theorem fragO_optOK_imp {β : Type} {p q : β → Prop} (h : ∀ x, p x → q x) : ∀ {o : Option β}, OptOK p o → OptOK q o
  | none, _ => trivial
  | some x, hx => h x hx

theorem LocQOKO.locQOK {q : Loc (PQuantity α)} (h : LocQOKO off w q) : LocQOK off w q :=
  ⟨h.1, h.2.1, fragO_optOK_imp (fun _ => TextOKO.textOK) h.2.2⟩

/-- the strengthened predicate implies the one of Lemmas/SpansEv.lean -/
theorem EvSpansOKO.evSpansOK {ev : Ev α} (h : EvSpansOKO off w ev) : EvSpansOK off w ev := by
  cases ev with
  | frontMatter t => exact TextOKO.textOK h
  | metadata k v => exact ⟨h.1.textOK, h.2.1.textOK, h.2.2⟩
  | «section» n => exact fragO_optOK_imp (fun _ => TextOKO.textOK) h
  | start k => trivial
  | stop k => trivial
  | text t => exact TextOKO.textOK h
  | ingredient i =>
    exact ⟨h.1, h.2.1, h.2.2.1, h.2.2.2.1.textOK, fragO_optOK_imp (fun _ => TextOKO.textOK) h.2.2.2.2.1,
      fragO_optOK_imp (fun _ => LocQOKO.locQOK) h.2.2.2.2.2.1, fragO_optOK_imp (fun _ => TextOKO.textOK) h.2.2.2.2.2.2⟩
  | cookware c =>
    exact ⟨h.1, h.2.1, h.2.2.1.textOK, fragO_optOK_imp (fun _ => TextOKO.textOK) h.2.2.2.1, h.2.2.2.2.1,
      fragO_optOK_imp (fun _ => TextOKO.textOK) h.2.2.2.2.2⟩
  | timer t => exact ⟨h.1, fragO_optOK_imp (fun _ => TextOKO.textOK) h.2.1, fragO_optOK_imp (fun _ => LocQOKO.locQOK) h.2.2⟩
  | error d => exact h
  | warning d => exact h

theorem topInvO_empty (b : Nat) : TopInvO (α := α) off w b #[] :=
  ⟨by simp, by simp [SrcOrdered], by simp⟩

theorem foldl_runBlock_evO (cs : CharSpec) (ext : Ext) (oldStyle : Bool) (blocks : List (List Tok))
    (evs0 : Array (Ev α)) {b : Nat} (hz : Boundary off w 0) (hinv : TopInvO off w b evs0)
    (hbl : BlocksIn off w b blocks) :
    ∃ b', TopInvO off w b'
      (blocks.foldl (fun acc blk => runBlock (α := α) cs ext oldStyle blk acc.1 acc.2) (evs0, none)).1 := by
  induction blocks generalizing evs0 b with
  | nil => exact ⟨b, hinv⟩
  | cons blk bs ih =>
    rw [List.foldl_cons]
    obtain ⟨hw, hb, hrest⟩ := hbl
    have h1 := runBlock_no_panic (α := α) cs ext oldStyle blk evs0 hw.wf
    have e1 : runBlock (α := α) cs ext oldStyle blk evs0 none =
        ((runBlock (α := α) cs ext oldStyle blk evs0 none).1, none) := by
      apply Prod.ext
      · rfl
      · exact h1
    show ∃ b', TopInvO off w b' (bs.foldl _ (runBlock (α := α) cs ext oldStyle blk evs0 none)).1
    rw [e1]
    exact ih _ (runBlock_evO cs ext oldStyle blk evs0 hw hz hinv hb) hrest

/-- **the whole document**: every event has good spans with respect to the input and texts whose fragments are
    faithful, ordered, disjoint and non-empty -/
theorem pullEvents_topInvO (cs : CharSpec) (ext : Ext) (input : List Char) :
    ∃ b, TopInvO 0 input b (pullEvents (α := α) cs ext input).1 := by
  have hz : Boundary 0 input 0 := Boundary.first
  have hfm := frontMatterOffsetsOK cs input
  unfold pullEvents
  cases hp : parseFrontmatter cs input with
  | none =>
    simp only
    apply foldl_runBlock_evO cs ext true _ _ hz (topInvO_empty 0)
    apply allBlocks_blocksIn _ _ 0 _ (Nat.le_refl _)
    unfold lex
    exact ⟨⟨lexFrom_chain cs 0 input, lexFrom_escapedOK cs 0 input⟩,
      ⟨[], [], by simp [lexFrom_tile], by simp [utf8Len]⟩⟩
  | some fm =>
    simp only
    obtain ⟨⟨pre, h1, h2⟩, h3⟩ := hfm fm hp
    apply foldl_runBlock_evO cs ext false _ _ hz (b := 0)
    · exact (topInvO_empty 0).pushNone (fragO_fromStr _ _ _ _ h3) rfl
    · apply allBlocks_blocksIn _ _ fm.cookOffset _ (Nat.zero_le _)
      exact ⟨⟨lexFrom_chain cs _ _, lexFrom_escapedOK cs _ _⟩,
        ⟨pre, [], by simp [lexFrom_tile, h1], by simp [h2]⟩⟩

/-! ### the metadata-only stream -/

theorem runMetaBlock_evO (cs : CharSpec) (ext : Ext) (blk : List Tok) (evs : Array (Ev α))
    (hw : WFI off w blk) {b : Nat} (hinv : TopInvO off w b evs) (hb : b ≤ baseOff blk) :
    TopInvO off w (offAt blk blk.length) (runMetaBlock cs ext blk evs none).1 := by
  have hc := topCtxO (α := α) hw b
  have g0 : GE (TopInvO off w b) blk ext (⟨blk, 0, ext, cs, evs, none⟩ : BP α) :=
    ⟨⟨rfl, rfl, rfl, Nat.zero_le _⟩, hinv⟩
  have hne : blk.isEmpty = false := by
    have := hw.ne
    cases blk <;> simp_all
  have hbl : b ≤ offAt blk blk.length := by
    have := hw.offAt_mono (Nat.zero_le blk.length)
    rw [offAt_zero] at this; omega
  have key : Sat (do
      if blk.isEmpty then panicWith "BlockParser::new: empty tokens"
      match ← metadataEntry (α := α) with
      | some ev =>
        pushEv ev
        let s ← get
        if s.cur ≠ s.toks.length then panicWith "Block tokens not parsed"
      | none => pure ()) ⟨blk, 0, ext, cs, evs, none⟩
      (fun _ s' => TopInvO off w (offAt blk blk.length) s'.evs) := by
    simp only [hne, Bool.false_eq_true, if_false]
    refine Sat.bind (Sat.mono (metadataEntry_evO hc g0) ?_)
    rintro r s1 ⟨g1, c1, hr⟩
    cases r with
    | none => exact Sat.pure (g1.evs.mono hbl)
    | some ev =>
      refine Sat.bind (Sat.pushEv ?_)
      refine Sat.bind (Sat.get ?_)
      have : s1.cur = s1.toks.length := by rw [g1.g.toks]; exact c1 rfl
      simp only [this, ne_eq, not_true_eq_false, if_false]
      refine Sat.pure (g1.evs.push hr.1 hbl ?_)
      intro sp hsp
      obtain ⟨h2, h3⟩ := hr.2 sp hsp
      rw [c1 rfl] at h3
      refine ⟨?_, h3⟩
      have : offAt blk 0 ≤ sp.start := h2
      rw [offAt_zero] at this; omega
  exact key

theorem foldl_runMetaBlock_evO (cs : CharSpec) (ext : Ext) (blocks : List (List Tok))
    (evs0 : Array (Ev α)) {b : Nat} (hinv : TopInvO off w b evs0) (hbl : BlocksIn off w b blocks) :
    ∃ b', TopInvO off w b'
      (blocks.foldl (fun acc blk => runMetaBlock (α := α) cs ext blk acc.1 acc.2) (evs0, none)).1 := by
  induction blocks generalizing evs0 b with
  | nil => exact ⟨b, hinv⟩
  | cons blk bs ih =>
    rw [List.foldl_cons]
    obtain ⟨hw, hb, hrest⟩ := hbl
    have h1 := runMetaBlock_no_panic (α := α) cs ext blk evs0 hw.wf
    have e1 : runMetaBlock (α := α) cs ext blk evs0 none =
        ((runMetaBlock (α := α) cs ext blk evs0 none).1, none) := by
      apply Prod.ext
      · rfl
      · exact h1
    show ∃ b', TopInvO off w b' (bs.foldl _ (runMetaBlock (α := α) cs ext blk evs0 none)).1
    rw [e1]
    exact ih _ (runMetaBlock_evO cs ext blk evs0 hw hinv hb) hrest

theorem pullMetaEvents_topInvO (cs : CharSpec) (ext : Ext) (input : List Char) :
    ∃ b, TopInvO 0 input b (pullMetaEvents (α := α) cs ext input).1 := by
  unfold pullMetaEvents
  cases hp : parseFrontmatter cs input with
  | some fm =>
    simp only
    exact ⟨0, (topInvO_empty 0).pushNone (fragO_fromStr _ _ _ _ (frontMatterOffsetsOK cs input fm hp).2) rfl⟩
  | none =>
    simp only
    apply foldl_runMetaBlock_evO cs ext _ _ (topInvO_empty 0)
    apply metaBlocks_blocksIn _ _ _ 0 _ (Nat.le_refl _)
    unfold lex
    exact ⟨⟨lexFrom_chain cs 0 input, lexFrom_escapedOK cs 0 input⟩,
      ⟨[], [], by simp [lexFrom_tile], by simp [utf8Len]⟩⟩

/-! ### reading `TextOrd` -/

/-- every fragment of an ordered text lies inside the span of the text -/
theorem TextOrd.frag_in_span {t : Text} (h : TextOrd t) : ∀ f ∈ t.frags, t.span.start ≤ f.offset ∧ f.stop ≤ t.span.stop := by
  intro f hf
  unfold Text.span
  cases hfr : t.frags with
  | nil => rw [hfr] at hf; cases hf
  | cons f0 fs =>
    simp only
    have hp := h.1
    rw [hfr] at hp hf
    have hoff : ∀ g : Frag, g.offset ≤ g.stop := fun g => by simp [Frag.stop]
    -- the last fragment
    have hlast : ∀ g ∈ f0 :: fs, g.stop ≤ (((f0 :: fs).getLast?).getD f0).stop := by
      intro g hg
      cases hl : (f0 :: fs).getLast? with
      | none => simp at hl
      | some l =>
        simp only [Option.getD_some]
        obtain ⟨ys, hys⟩ : ∃ ys, f0 :: fs = ys ++ [l] := by
          have := List.getLast?_eq_some_iff.1 hl
          exact this
        rw [hys] at hp hg
        rw [List.pairwise_append] at hp
        simp only [List.mem_append, List.mem_singleton] at hg
        rcases hg with hg | rfl
        · exact Nat.le_trans (hp.2.2 g hg l (by simp)) (hoff l)
        · exact Nat.le_refl _
    refine ⟨?_, hlast f hf⟩
    simp only [List.mem_cons] at hf
    rcases hf with rfl | hf
    · exact Nat.le_refl _
    · exact Nat.le_trans (hoff f0) ((List.pairwise_cons.1 hp).1 f hf)

end Cook
'''
open(os.path.join(L,'SpansFrag.lean'),'w').write(header+body+footer)
