#!/usr/bin/env python3
"""Writes /verif/MANIFEST.json from the table below (kept in one place so that it stays valid)."""
import json, os
ROOT = os.path.dirname(os.path.dirname(os.path.abspath(__file__)))
from manifest_entries import CHECKS, NOT_APPLICABLE

m = {
    "version": 1,
    "setup_cmd": "cd /verif && ./setup.sh",
    "hooks": {
        "guard": "cfg(cooklang_verif)",
        "enable": "RUSTFLAGS=\"--cfg cooklang_verif\" (set in /verif/harness/.cargo/config.toml); the harness depends on /repo by path and is rebuilt from the working tree by every check",
        "baseline_off_cmd": "cd /repo && cargo test --workspace --no-fail-fast --offline",
        "source_commits": ["7d5a086"],
        "add_only": True,
    },
    "engines": [
        {"name": "lean-model", "path": "/verif/lean", "serves_properties": [c["property_id"] for c in CHECKS],
         "kind_free_text": "Lean 4 model of the code + theorems per property (CookModel/Props/Cxx.lean), compiled driver for the line protocol"},
        {"name": "harness", "path": "/verif/harness", "serves_properties": [c["property_id"] for c in CHECKS],
         "kind_free_text": "Rust correspondence harness: runs the real code in-process, pipes the same requests to the Lean driver, diffs; carries the per-property oracle used to search for a failing input"},
    ],
    "checks": [],
    "notes": "All checks: ./check <id> quick|thorough. See DESIGN.md. Known findings: KNOWN_FINDINGS.json.",
    "not_applicable": NOT_APPLICABLE,
}
for c in CHECKS:
    pid = c["property_id"]
    m["checks"].append({
        "property_id": pid,
        "quick_cmd": f"./check {pid} quick",
        "thorough_cmd": f"./check {pid} thorough",
        "evidence_file": f"/verif/evidence/{pid}.json",
        "replay_cmd_template": f"./check {pid} --replay {{path}}",
        "engine": "lean-model",
        "level_claimed": {"category": "proof", "text": c["text"], "design_ref": c.get("design_ref", "DESIGN.md §6 " + pid)},
        "level_note": c["note"],
        "technique": c["technique"],
    })
json.dump(m, open(os.path.join(ROOT, "MANIFEST.json"), "w"), indent=1, ensure_ascii=False)
print("MANIFEST.json written:", len(m["checks"]), "checks,", len(NOT_APPLICABLE), "not applicable")
