"""Per-property configuration of ./check (which generated parts, trusted base, assumptions)."""

COMMON_TB = [
    "Lean 4.33.0 kernel (leanchecker re-check in the thorough tier); axioms of every theorem audited against {propext, Classical.choice, Quot.sound}",
    "the hand-written Lean model is tied to the code only by the correspondence run of this check (same request lines to the compiled model and to the real code, replies compared)",
    "the harness' generators and canonicaliser (/verif/harness)",
]
FLOAT_TB = "IEEE-754 rounding: theorems are over exact rationals; the f64 instance of the same definitions is compared bit-for-bit with the Rust results on the generated cases"
CONSTS = {"script": "gen_consts.py"}
UNITS = {"script": "gen_units.py"}
DISPLAY_CONSTS = {"script": "gen_display_consts.py"}
REPORT_COLORS = {"script": "gen_report_colors.py"}
DIAG_SITES = {"script": "gen_diag_sites.py"}
UNITS_ALT = {"script": "gen_units.py", "args": ["lean/CookModel/Gen/UnitsAlt.lean", "corpus/C09/alt_units.toml", "GenAlt"]}

UNITS_LAY = {"script": "gen_units.py", "args": ["lean/CookModel/Gen/UnitsLay.lean", "@repo", "GenLay", "corpus/C12/frac_layer.toml"]}

CHARTABLE = {"harness": ["chartable", "{LEAN}/CookModel/Gen/CharTable.lean"]}
SYNTAX_TB = [
    "the character-class table (Gen/CharTable.lean) is produced on every run by the real lexer (cfg(cooklang_verif) token hook) and std's char predicates over all 1,112,064 scalar values as a Lean literal; the theorems hold for every CharSpec, and the side conditions they assume (CrlfSpec, UwsNL, TrailSpec, AlnumSpec, DigitsNotWs, uws ' ', unique unit / fold keys) are proved for the generated table by kernel evaluation (Lemmas/TableFacts.lean; theorems Cxx_*_real)",
    "modelled, not verified: finl_unicode / std Unicode tables (through the generated table), codesnake's renderer (only exercised: SourceReport::write is run on every report)",
    "translators/gen_consts.py (extension and modifier flag values from src/lib.rs, src/parser/model.rs)",
]

PROPS = {
    "C11": {
        "gen": [],
        "trusted_base": COMMON_TB + [
            "modelled, not verified: std `str::lines`, `split_once`, `split`, `trim` (`trim_matches` slice offsets), `starts_with`/`ends_with`, slicing, `HashSet`/`HashMap` get/insert; re-implemented over List Char in lean/CookModel/Side/Aisle.lean and tied to std by the exhaustive + random correspondence run",
            "the explicit Unicode White_Space table of the model is compared with `char::is_whitespace` over all scalar values in every run (op ws_table)",
            "modelled, not verified: std `Write::write_fmt` / `Write::write_all` (every formatted piece is handed to `write_all`, which calls `write` until the piece is consumed, `Ok(0)` = `Err(WriteZero)`; lean/CookModel/Side/AisleSink.lean) and the UTF-8 encoding of a text (`String.utf8EncodeChar`); tied by op aisle_sink: what a destination accepting n bytes per call / cap bytes in all holds after `aisle::write`, and Ok / WriteZero, compared on every parsed file with four (n, cap) shapes"],
        "assumptions": ["text is a sequence of Unicode scalar values (Rust `&str`); byte offsets are sums of UTF-8 lengths",
                        "`AisleConf` equality is taken on freshly parsed configurations (the private `len` cache cell is 0); `ingredients_info` is the lookup"],
    },
    "C12": {
        "gen": [CONSTS, UNITS, UNITS_ALT, UNITS_LAY, DISPLAY_CONSTS],
        "trusted_base": COMMON_TB + [FLOAT_TB,
            "translators/gen_consts.py (scrapes DENOMS, FIX_RATIO, the 1e-10 tolerance from src/quantity.rs)",
            "translators/gen_display_consts.py (scrapes the 1000.0 of round_float and the 0.001 suffix threshold of Display for Number)",
            "modelled, not verified: std `Display for f64` (flt2dec shortest digits); the model's exact shortest-round-trip printer (Num/Display.lean `f64Text`) is compared with `format!` on every run; the theorems about printed decimals are over exact rationals (`ratText`)",
            "modelled, not verified: std f64 trunc/round/fract/as-casts (Lean Float ops are assumed to be the same IEEE operations)"],
        "assumptions": ["theorems hold for every structurally well-formed lookup table; that the table built with f64 arithmetic equals the one built exactly is checked at run time by the driver, not proved",
                        "accuracy in [0,1] and max_den <= 64 (the documented preconditions; callers are checked under C03/C16)"],
    },
    "C09": {
        "gen": [CONSTS, UNITS, UNITS_ALT],
        "trusted_base": COMMON_TB + [FLOAT_TB,
            "translators/gen_units.py (units.toml -> Gen/Units.lean: exact decimals + f64 bits, id order and SI expansion of ConverterBuilder, fractions layers resolved as build_fractions_config does); its output is compared row by row with Converter::bundled() by the check",
            "translators/gen_consts.py (the 0.001 slack of best_unit)",
            "the hand-written table of standard definitions (stdDef in Lemmas/Convert.lean, std_def in harness/src/props/c09.rs)",
            "modelled, not verified: std f64 abs / partial_cmp, Iterator::min_by / rev / find, slice::sort_by (stable); the unit index, Arc identity and all_units[id] are represented by resolved records carrying their id"],
        "assumptions": ["the converter is well formed (Converter.wf: best lists hold units of their own quantity, every unit has a key, fractions configurations within new_approx's documented preconditions); decided for the generated bundled converter (C09_bundled_wf), for other converters it is C16's invariant",
                        "oracle values are finite with magnitude in [1e-9, 1e12] or zero (outside that range f64 overflow/underflow makes 'within floating-point tolerance' meaningless); non-finite and extreme values are compared with the model only"],
    },
    "C08": {
        "gen": [CONSTS, UNITS, UNITS_ALT],
        "trusted_base": COMMON_TB + [FLOAT_TB,
            "translators/gen_units.py and gen_consts.py (the converter used for fitting after scaling; see C09)",
            "the parsed recipe is an input of the model: the harness sends the quantities the real parser produced (value bits, units, Fixed/Linear), so the parser is not part of this check except for the Linear/Fixed decision, which is modelled (mkScalable) and compared on what the generator wrote",
            "modelled, not verified: serde's JSON image is used by the oracle to state 'everything else is byte-equal'"],
        "assumptions": ["the converter satisfies the builder's invariants (Converter.Sound; decided for the bundled converter, C09_bundled_sound)",
                        "oracle: finite positive factors, values and products with magnitude in [1e-9, 1e12] or zero; other factors (0 servings, huge values) are compared with the model only",
                        "for units with an offset (°C, °F) 'multiplied by f' is read as: the written value is multiplied by f (amount of f·v in the written unit); for all other units this is f times the physical amount"],
    },
    "C10": {
        "gen": [CONSTS, UNITS],
        "trusted_base": COMMON_TB + [FLOAT_TB,
            "translators/gen_units.py (units.toml -> Gen/Units.lean; compared row by row with Converter::bundled() by C09's check) and translators/gen_consts.py (modifier flag values)",
            "the conversion model and its lemmas are those of C09 (Num/Convert.lean, Lemmas/Convert.lean: convertImpl_spec, fit_spec); the aisle model is that of C11 (Side/Aisle.lean: parse, lookup)",
            "modelled, not verified: EnumMap (a function PhysQ -> Option), HashMap lookup/insert/get_mut (association list; its iteration order is an explicit parameter and every theorem quantifies over all orders), BTreeMap<String,_> (association list sorted by code point order, lookups by key equality), Vec push/extend, std::path::Path::file_stem (re-implemented for Unix paths, tied by the display_name correspondence cases), serde's image of the private fields of GroupedQuantity (used by the harness to read a group)",
            "scaling outcomes (GroupedIngredient::outcome) are only logged by add_recipe and are not modelled"],
        "assumptions": ["the converter satisfies the builder's invariants (Converter.Sound; decided for the generated bundled converter, C16 for others)",
                        "totals are stated per class in base-unit amounts for classes whose units have no offset (LinearClass: every unknown unit, unit-less, and volume/mass/length/time of the bundled converter, decided); for temperature a sum depends on the unit it is made in (C10_offset_units_do_not_sum) and only C10_add_known_in_stored_unit and the fit/texts clauses apply",
                        "recipes satisfy the reference-table invariant of C06 (RefsConsistent / RefsInRange: every referenced_from index is in range and points to a reference to this definition, every reference is registered once); without it the model returns the index panic as a value, which is compared with the code on hand-made tables",
                        "oracle values are finite, non-negative, with magnitudes in [1e-3, 1e7]; sums are compared with relative tolerance 1e-9 of the summed magnitudes"],
    },
    "C04": {
        "gen": [CONSTS, REPORT_COLORS, CHARTABLE],
        "trusted_base": COMMON_TB + SYNTAX_TB + [
            "translators/gen_report_colors.py (the colour table ColorGenerator::COLORS of src/error.rs -> Gen/ReportColors.lean, by yansi colour name; the colour of every painted piece of every coloured report is compared with the model by the correspondence run)"],
        "assumptions": ["theorems cover the lexer (tiling, boundaries) and text assembly (fragment faithfulness, order) for every input; the span arithmetic of the individual block parsers and of the analysis labels is covered by the correspondence run (every span of every event/diagnostic compared with the model) and by the oracle on the implementation, not by a theorem yet"],
    },
    "C06": {
        "gen": [CONSTS, CHARTABLE],
        "trusted_base": COMMON_TB + SYNTAX_TB + ["external to the model (parameters): serde_yaml (the decoder only: the harness sends the decoded mapping or the error location, and the validator verdicts; what process_frontmatter does with them — metadata, servings, diagnostics with labels — is modelled and compared unfiltered through recipe_fm / metaonly_fm, see notes/frontmatter.md; mappings containing YAML tags stay excluded), check_std_entry on `>>` values (until the std-metadata model is plugged in its warnings are excluded from the compared reply), unicase folding (table extracted from the real crate on every run), converter key lookup (table extracted from Converter::bundled() on every run)"],
        "assumptions": ["proved: intermediate-reference resolution stays in range; the other clauses of the invariant (C06_statement, kept at full strength) are decided per run by the invariant oracle on the implementation and by whole-recipe correspondence, not by a theorem yet"],
    },
    "C07": {
        "gen": [CONSTS, CHARTABLE, {"script": "diag_catalogue.py"}],
        "trusted_base": COMMON_TB + SYNTAX_TB + ["external to the model (parameters): serde_yaml (the decoder only: the harness sends the decoded mapping or the error location, and the validator verdicts; what process_frontmatter does with them — metadata, servings, diagnostics with labels — is modelled and compared unfiltered through recipe_fm / metaonly_fm, see notes/frontmatter.md; mappings containing YAML tags stay excluded), check_std_entry on `>>` values (until the std-metadata model is plugged in its warnings are excluded from the compared reply), unicase folding (table extracted from the real crate on every run), converter key lookup (table extracted from Converter::bundled() on every run)"],
        "assumptions": ["proved: validity definition, parse-error short-circuit, output kept without parse errors; soundness on well-formed recipes and completeness/placement of the 59 catalogued constructs are tested (planted constructs, oracle + model correspondence of every label), not proved"],
    },
    "C01": {
        "gen": [CONSTS, CHARTABLE],
        "trusted_base": COMMON_TB + SYNTAX_TB + ["external to the model (parameters): serde_yaml (the decoder only: the harness sends the decoded mapping or the error location, and the validator verdicts; what process_frontmatter does with them — metadata, servings, diagnostics with labels — is modelled and compared unfiltered through recipe_fm / metaonly_fm, see notes/frontmatter.md; mappings containing YAML tags stay excluded), check_std_entry on `>>` values (until the std-metadata model is plugged in its warnings are excluded from the compared reply), unicase folding (table extracted from the real crate on every run), converter key lookup (table extracted from Converter::bundled() on every run)"],
        "assumptions": ["proved: value-level read-back (integers, decimals with arbitrary blank/comment padding), range gating, plain text runs; composition over components/steps/blocks/analysis (C01_statement) is tested on random abstract recipes x 4 spelling styles, not proved",
                        "the spelling styles vary only what the documented syntax leaves free (DESIGN.md section 6 C01): spacing around tokens, comments between words, line wrapping in step text, CRLF, percent sign vs space before the unit under ADVANCED_UNITS"],
    },
    "C02": {
        "gen": [CONSTS, CHARTABLE],
        "trusted_base": COMMON_TB + SYNTAX_TB + ["external to the model (parameters): serde_yaml (the decoder only: the harness sends the decoded mapping or the error location, and the validator verdicts; what process_frontmatter does with them — metadata, servings, diagnostics with labels — is modelled and compared unfiltered through recipe_fm / metaonly_fm, see notes/frontmatter.md; mappings containing YAML tags stay excluded), check_std_entry on `>>` values (until the std-metadata model is plugged in its warnings are excluded from the compared reply), unicase folding (table extracted from the real crate on every run), converter key lookup (table extracted from Converter::bundled() on every run)"],
        "assumptions": ['proved: gate lemmas (modifiers / range / alias gates off read as core); the main clause and the per-flag readings are tested over all 256 raw patterns against oracle and model'],
    },
    "C03": {
        "gen": [CONSTS, CHARTABLE, DIAG_SITES],
        "trusted_base": COMMON_TB + SYNTAX_TB + ["external to the model (parameters): serde_yaml (the decoder only: the harness sends the decoded mapping or the error location, and the validator verdicts; what process_frontmatter does with them — metadata, servings, diagnostics with labels — is modelled and compared unfiltered through recipe_fm / metaonly_fm, see notes/frontmatter.md; mappings containing YAML tags stay excluded), check_std_entry on `>>` values (until the std-metadata model is plugged in its warnings are excluded from the compared reply), unicase folding (table extracted from the real crate on every run), converter key lookup (table extracted from Converter::bundled() on every run)"] + ["the worker subprocess / watchdog runner of the harness (45 s per case)", "translators/gen_diag_sites.py (every `.error(..)` / `.warn(..)` call of src/**/*.rs with the macro that builds its argument, and the severity each sink's debug assertion demands -> Gen/DiagSites.lean; a textual scraper: sites whose builder it cannot read are listed as undetermined and not covered by C03_diag_sink_severity_sites)"],
        "assumptions": ["proved: text assembly never asserts on lexed runs, blocks handed to BlockParser::new are non-empty and without trailing newline, pull_line makes progress; the rest of C03_statement (the panic flag of the model is never set) is compared with the real code's panics per run", 'cannot be exhibited by the model, only observed by the worker/watchdog runs: stack exhaustion, allocation failure, time complexity, panics inside dependencies'],
    },
    "C05": {
        "gen": [CONSTS, CHARTABLE],
        "trusted_base": COMMON_TB + SYNTAX_TB + ["external to the model (parameters): serde_yaml (the decoder only: the harness sends the decoded mapping or the error location, and the validator verdicts; what process_frontmatter does with them — metadata, servings, diagnostics with labels — is modelled and compared unfiltered through recipe_fm / metaonly_fm, see notes/frontmatter.md; mappings containing YAML tags stay excluded), check_std_entry on `>>` values (until the std-metadata model is plugged in its warnings are excluded from the compared reply), unicase folding (table extracted from the real crate on every run), converter key lookup (table extracted from Converter::bundled() on every run)"],
        "assumptions": ['proved: pull_line loses no token; every letter/digit of a non-comment token of a text run is in the assembled text; the whole-document clause is tested (oracle on event spans + event correspondence)'],
    },
    "C14": {
        "gen": [CONSTS, CHARTABLE],
        "trusted_base": COMMON_TB + SYNTAX_TB + ["external to the model (parameters): serde_yaml (the decoder only: the harness sends the decoded mapping or the error location, and the validator verdicts; what process_frontmatter does with them — metadata, servings, diagnostics with labels — is modelled and compared unfiltered through recipe_fm / metaonly_fm, see notes/frontmatter.md; mappings containing YAML tags stay excluded), check_std_entry on `>>` values (until the std-metadata model is plugged in its warnings are excluded from the compared reply), unicase folding (table extracted from the real crate on every run), converter key lookup (table extracted from Converter::bundled() on every run)"],
        "assumptions": ['proved: the metadata-only scanner only ever hands `>>` lines to metadata_entry and emits exactly the front-matter event when there is front matter; equality of the resulting metadata is tested (oracle on both real parses + model)'],
    },
    "C17": {
        "gen": [CONSTS, CHARTABLE],
        "trusted_base": COMMON_TB + SYNTAX_TB + ["external to the model (parameters): serde_yaml (the decoder only: the harness sends the decoded mapping or the error location, and the validator verdicts; what process_frontmatter does with them — metadata, servings, diagnostics with labels — is modelled and compared unfiltered through recipe_fm / metaonly_fm, see notes/frontmatter.md; mappings containing YAML tags stay excluded), check_std_entry on `>>` values (until the std-metadata model is plugged in its warnings are excluded from the compared reply), unicase folding (table extracted from the real crate on every run), converter key lookup (table extracted from Converter::bundled() on every run)"],
        "assumptions": ['proved at text-assembly level for all token runs and offsets (comment insertion, trailing comment/space, LF vs CRLF newline tokens); the end-to-end clause (recipe equal up to whitespace in step text, validity equal) is tested on well-formed recipes and filtered soups'],
    },
    "C18": {
        "gen": [CONSTS, CHARTABLE],
        "trusted_base": COMMON_TB + SYNTAX_TB + ["external to the model (parameters): serde_yaml (the decoder only: the harness sends the decoded mapping or the error location, and the validator verdicts; what process_frontmatter does with them — metadata, servings, diagnostics with labels — is modelled and compared unfiltered through recipe_fm / metaonly_fm, see notes/frontmatter.md; mappings containing YAML tags stay excluded), check_std_entry on `>>` values (until the std-metadata model is plugged in its warnings are excluded from the compared reply), unicase folding (table extracted from the real crate on every run), converter key lookup (table extracted from Converter::bundled() on every run)"],
        "assumptions": ['proved for the instance model: replies are independent of history and of any interleaving of calls; the model has no state other than the lazily built fraction table, which parsing never reads', 'cannot be exhibited by the model: data races, memory-model effects, Sync soundness of dependencies, RandomState seeding; observed only (2..16 threads sharing one parser; CooklangParser: Send + Sync is checked by the compiler in the harness)'],
    },
    "C13": {
        "gen": [CONSTS, {"script": "gen_stdmeta.py"}],
        "trusted_base": COMMON_TB + [FLOAT_TB,
            "translators/gen_stdmeta.py (scrapes the compact-format separators and hour factor, the hard-coded time units, the minute lookup names and the std key tables from src/metadata.rs)",
            "Basic/Decimal.lean: decimal text -> nearest f64 (used by the f64 instance for number literals; tied to str::parse::<f64> by the correspondence ops)",
            "modelled, not verified: serde_yaml (the harness hands the model the parsed value: as_u64 and to_string of numbers are inputs), char::is_alphabetic (input: the alphabetic characters of the text), the converter (input: the time units, their ratios and the name index as the real Converter reports them), str routines split/trim/split_whitespace/parse re-implemented in the model and tied by the ops sm_words, sm_trim, sm_u32, sm_f64syn"],
        "assumptions": ["time theorems are over exact rationals and hold for every converter whose time units have a non-zero ratio",
                        "char::is_alphabetic(':') is false",
                        "std saturates decimal exponents beyond 65536 digits of magnitude; the model does not: irrelevant for texts shorter than 65000 characters",
                        "the oracle stays silent where the documentation does: blank time texts, trimming of quoted list entries in tags, signs/exponents in numbers of minutes, text glued to a servings number"],
    },
    "C19": {
        "gen": [],
        "pre_build": ["prep_bindings.py"],   # scratch copy of $REPO/bindings with an rlib (harness/target/bindings_copy)
        "features": ["ffi"],
        "trusted_base": COMMON_TB + [FLOAT_TB,
            "translators/prep_bindings.py: the bindings crate is compiled from a copy of the working tree's bindings/src with only its manifest edited (package renamed, \"lib\" crate type added, core path made absolute)",
            "uniffi 0.28 record/enum (de)serialisation (FfiConverter::write/try_read) is how the harness builds and reads `Amount`/`Ingredient` values whose fields are crate-private; uniffi scaffolding itself is not modelled",
            "the recipe S-expression sent to the model is produced from the real ScaledRecipe through its public accessors (harness/src/recipe_sexp.rs)"],
        "assumptions": ["mirror theorems: the core recipe's item indices are in range (C06's invariant) and it has at most 2^32 components of each kind (`usize as u32` in into_item)",
                        "combination theorems are over exact rationals and lists of at most 2^32 ingredients; text amounts are concatenated in input order and are outside the order-independence statement",
                        "the view's metadata map / parse_metadata: an entry of the core serde_yaml mapping enters the model as the pair (key.as_str(), value.as_str()) computed by serde_yaml (tagged scalars read as their untagged string); whether a front matter is valid YAML is outside the parser model, so ffi_parse is compared on accepted inputs and on rejected inputs without front matter",
                        "the aisle wrapper theorems are about the model of src/aisle.rs of C11 (as repaired); parse_aisle_config's unwrap makes every rejected file a panic of the wrapper (the property is silent about it)",
                        "Range amounts, Number::Fraction values and inline-quantity items cannot be produced through parse_recipe (canonical parser, empty converter): those branches of into_simple_recipe are covered by the theorems on the model only; ranges in combine_ingredients are exercised through the FFI wire format"],
    },
    "C15": {
        "gen": [],
        "trusted_base": COMMON_TB + [
            "serde_json number printing/parsing: the theorems assume parse(print x) = x for finite f64 (serde_json built with `float_roundtrip`, enabled in harness/Cargo.toml); the correspondence compares f64 by bit pattern after re-parsing the printed literal with str::parse",
            "serde / serde_derive / serde_json / serde_yaml / bitflags internals are modelled (shapes of the derived impls), not verified; the deserializers of the model read a document the way the derived ones do (field lookup by key, tag dispatch, null = None, flatten) but are only proved against the model's own encoder; that the real from_str inverts the real to_string is what the oracle evaluates on every generated recipe",
            "harness/src/props/c15.rs canon_json (rewrites the real JSON text: strings as code points, floats as bit patterns) and harness/src/recipe_sexp.rs (typed recipe to S-expression through public accessors; `reference_target` of a definition is not observable and sent as none)"],
        "assumptions": ["every number of the recipe is finite (the property's premise)",
                        "modifier bits are the five declared flags (bitflags prints other bits in hexadecimal, not modelled)",
                        "Metadata.map is an opaque JSON object in the model: the theorems cover metadata that is JSON-representable (string keys at every depth, no YAML tags); front matter outside that class is accepted by the parser and does not survive serialization (known finding F-C15-1, re-found by the oracle every run); equality of the YAML values read back is evaluated by the oracle on the implementation only",
                        "u32/usize ranges are not modelled (naturals)"],
    },
    "C16": {
        "gen": [{"script": "gen_units_file.py"}],
        "trusted_base": COMMON_TB + [FLOAT_TB,
            "translators/gen_units_file.py (units.toml -> Lean value with tomllib; SI prefix ratios, FractionsConfig defaults and clamps scraped from src/convert)",
            "modelled, not verified: toml/serde deserialisation of units files (the harness sends the deserialised UnitsFile value), build.rs' quote/prettyplease code generation (tied by comparing Converter::bundled() with the model built from the generated units.toml value), hashbrown iteration order (sent to the model as it is), slice::sort_by (a stable sort on a total order), enum_map!, Arc, format!",
            "the harness reads the thresholds, the index and the fraction settings of a Converter from its derived Debug rendering (they are not reachable through the public API)"],
        "assumptions": ["a build is: a new ConverterBuilder, add_units_file for each layer in order, the first error ends the build, then finish",
                        "ratios, differences and accuracies are finite and ratios positive (the property's premise); outside it the model is still compared with the code but the oracle does not judge",
                        "ordering clauses (best lists in non-decreasing ratio order) are proved over exact rationals"],
    },
}
