"""Per-property configuration of ./check (which generated parts, trusted base, assumptions)."""

COMMON_TB = [
    "Lean 4.33.0 kernel (leanchecker re-check in the thorough tier); axioms of every theorem audited against {propext, Classical.choice, Quot.sound}",
    "the hand-written Lean model is tied to the code only by the correspondence run of this check (same request lines to the compiled model and to the real code, replies compared)",
    "the harness' generators and canonicaliser (/verif/harness)",
]
FLOAT_TB = "IEEE-754 rounding: theorems are over exact rationals; the f64 instance of the same definitions is compared bit-for-bit with the Rust results on the generated cases"
CONSTS = {"script": "gen_consts.py"}

PROPS = {
    "C11": {
        "gen": [],
        "trusted_base": COMMON_TB + [
            "modelled, not verified: std `str::lines`, `split_once`, `split`, `trim` (`trim_matches` slice offsets), `starts_with`/`ends_with`, slicing, `HashSet`/`HashMap` get/insert; re-implemented over List Char in lean/CookModel/Side/Aisle.lean and tied to std by the exhaustive + random correspondence run",
            "the explicit Unicode White_Space table of the model is compared with `char::is_whitespace` over all scalar values in every run (op ws_table)"],
        "assumptions": ["text is a sequence of Unicode scalar values (Rust `&str`); byte offsets are sums of UTF-8 lengths",
                        "`AisleConf` equality is taken on freshly parsed configurations (the private `len` cache cell is 0); `ingredients_info` is the lookup"],
    },
    "C12": {
        "gen": [CONSTS],
        "trusted_base": COMMON_TB + [FLOAT_TB,
            "translators/gen_consts.py (scrapes DENOMS, FIX_RATIO, the 1e-10 tolerance from src/quantity.rs)",
            "modelled, not verified: std f64 trunc/round/fract/as-casts (Lean Float ops are assumed to be the same IEEE operations)"],
        "assumptions": ["theorems hold for every structurally well-formed lookup table; that the table built with f64 arithmetic equals the one built exactly is checked at run time by the driver, not proved",
                        "accuracy in [0,1] and max_den <= 64 (the documented preconditions; callers are checked under C03/C16)"],
    },
}
