"""Per-property configuration of ./check (which generated parts, trusted base, assumptions)."""

COMMON_TB = [
    "Lean 4.33.0 kernel (leanchecker re-check in the thorough tier); axioms of every theorem audited against {propext, Classical.choice, Quot.sound}",
    "the hand-written Lean model is tied to the code only by the correspondence run of this check (same request lines to the compiled model and to the real code, replies compared)",
    "the harness' generators and canonicaliser (/verif/harness)",
]
FLOAT_TB = "IEEE-754 rounding: theorems are over exact rationals; the f64 instance of the same definitions is compared bit-for-bit with the Rust results on the generated cases"
CONSTS = {"script": "gen_consts.py"}

PROPS = {
    "C12": {
        "gen": [CONSTS],
        "trusted_base": COMMON_TB + [FLOAT_TB,
            "translators/gen_consts.py (scrapes DENOMS, FIX_RATIO, the 1e-10 tolerance from src/quantity.rs)",
            "modelled, not verified: std f64 trunc/round/fract/as-casts (Lean Float ops are assumed to be the same IEEE operations)"],
        "assumptions": ["theorems hold for every structurally well-formed lookup table; that the table built with f64 arithmetic equals the one built exactly is checked at run time by the driver, not proved",
                        "accuracy in [0,1] and max_den <= 64 (the documented preconditions; callers are checked under C03/C16)"],
    },
    "C13": {
        "gen": [CONSTS, {"script": "gen_stdmeta.py"}],
        "trusted_base": COMMON_TB + [FLOAT_TB,
            "translators/gen_stdmeta.py (scrapes the compact-format separators and hour factor, the hard-coded time units, the minute lookup names and the std key tables from src/metadata.rs)",
            "Basic/Decimal.lean: decimal text -> nearest f64 (used by the f64 instance for number literals; tied to str::parse::<f64> by the correspondence ops)",
            "modelled, not verified: serde_yaml (the harness hands the model the parsed value: as_u64 and to_string of numbers are inputs), char::is_alphabetic (input: the alphabetic characters of the text), the converter (input: the time units, their ratios and the name index as the real Converter reports them), str routines split/trim/split_whitespace/parse re-implemented in the model and tied by the ops sm_words, sm_trim, sm_u32, sm_f64syn"],
        "assumptions": ["time theorems are over exact rationals and hold for every converter whose time units have a non-zero ratio",
                        "char::is_alphabetic(':') is false",
                        "std saturates decimal exponents beyond 65536 digits of magnitude; the model does not: irrelevant for texts shorter than 65000 characters",
                        "the oracle stays silent where the documentation does: blank time texts, trimming of quoted list entries in tags, signs/exponents in numbers of minutes, text glued to a servings number"],
    },
}
