"""Per-property configuration of ./check (which generated parts, trusted base, assumptions)."""

COMMON_TB = [
    "Lean 4.33.0 kernel (leanchecker re-check in the thorough tier); axioms of every theorem audited against {propext, Classical.choice, Quot.sound}",
    "the hand-written Lean model is tied to the code only by the correspondence run of this check (same request lines to the compiled model and to the real code, replies compared)",
    "the harness' generators and canonicaliser (/verif/harness)",
]
FLOAT_TB = "IEEE-754 rounding: theorems are over exact rationals; the f64 instance of the same definitions is compared bit-for-bit with the Rust results on the generated cases"
CONSTS = {"script": "gen_consts.py"}

PROPS = {
    "C12": {
        "gen": [CONSTS],
        "trusted_base": COMMON_TB + [FLOAT_TB,
            "translators/gen_consts.py (scrapes DENOMS, FIX_RATIO, the 1e-10 tolerance from src/quantity.rs)",
            "modelled, not verified: std f64 trunc/round/fract/as-casts (Lean Float ops are assumed to be the same IEEE operations)"],
        "assumptions": ["theorems hold for every structurally well-formed lookup table; that the table built with f64 arithmetic equals the one built exactly is checked at run time by the driver, not proved",
                        "accuracy in [0,1] and max_den <= 64 (the documented preconditions; callers are checked under C03/C16)"],
    },
    "C19": {
        "gen": [],
        "pre_build": ["prep_bindings.py"],   # scratch copy of $REPO/bindings with an rlib (harness/target/bindings_copy)
        "features": ["ffi"],
        "trusted_base": COMMON_TB + [FLOAT_TB,
            "translators/prep_bindings.py: the bindings crate is compiled from a copy of the working tree's bindings/src with only its manifest edited (package renamed, \"lib\" crate type added, core path made absolute)",
            "uniffi 0.28 record/enum (de)serialisation (FfiConverter::write/try_read) is how the harness builds and reads `Amount`/`Ingredient` values whose fields are crate-private; uniffi scaffolding itself is not modelled",
            "the recipe S-expression sent to the model is produced from the real ScaledRecipe through its public accessors (harness/src/recipe_sexp.rs)"],
        "assumptions": ["mirror theorems: the core recipe's item indices are in range (C06's invariant) and it has at most 2^32 components of each kind (`usize as u32` in into_item)",
                        "combination theorems are over exact rationals and lists of at most 2^32 ingredients; text amounts are concatenated in input order and are outside the order-independence statement",
                        "the view's metadata map is not modelled (the property does not mention it)",
                        "Range amounts, Number::Fraction values and inline-quantity items cannot be produced through parse_recipe (canonical parser, empty converter): those branches of into_simple_recipe are covered by the theorems on the model only; ranges in combine_ingredients are exercised through the FFI wire format"],
    },
    "C15": {
        "gen": [],
        "trusted_base": COMMON_TB + [
            "serde_json number printing/parsing: the theorems assume parse(print x) = x for finite f64 (serde_json built with `float_roundtrip`, enabled in harness/Cargo.toml); the correspondence compares f64 by bit pattern after re-parsing the printed literal with str::parse",
            "serde / serde_derive / serde_json / serde_yaml / bitflags internals are modelled (shapes of the derived impls), not verified; the deserializers of the model read a document the way the derived ones do (field lookup by key, tag dispatch, null = None, flatten) but are only proved against the model's own encoder; that the real from_str inverts the real to_string is what the oracle evaluates on every generated recipe",
            "harness/src/props/c15.rs canon_json (rewrites the real JSON text: strings as code points, floats as bit patterns) and harness/src/recipe_sexp.rs (typed recipe to S-expression through public accessors; `reference_target` of a definition is not observable and sent as none)"],
        "assumptions": ["every number of the recipe is finite (the property's premise)",
                        "modifier bits are the five declared flags (bitflags prints other bits in hexadecimal, not modelled)",
                        "Metadata.map is an opaque JSON object in the model: after the repair of the front-matter check a parsed mapping has string keys and no tags; equality of the YAML values read back is evaluated by the oracle on the implementation only",
                        "u32/usize ranges are not modelled (naturals)"],
    },
}
