"""Per-property configuration of ./check (which generated parts, trusted base, assumptions)."""

COMMON_TB = [
    "Lean 4.33.0 kernel (leanchecker re-check in the thorough tier); axioms of every theorem audited against {propext, Classical.choice, Quot.sound}",
    "the hand-written Lean model is tied to the code only by the correspondence run of this check (same request lines to the compiled model and to the real code, replies compared)",
    "the harness' generators and canonicaliser (/verif/harness)",
]
FLOAT_TB = "IEEE-754 rounding: theorems are over exact rationals; the f64 instance of the same definitions is compared bit-for-bit with the Rust results on the generated cases"
CONSTS = {"script": "gen_consts.py"}

PROPS = {
    "C12": {
        "gen": [CONSTS],
        "trusted_base": COMMON_TB + [FLOAT_TB,
            "translators/gen_consts.py (scrapes DENOMS, FIX_RATIO, the 1e-10 tolerance from src/quantity.rs)",
            "modelled, not verified: std f64 trunc/round/fract/as-casts (Lean Float ops are assumed to be the same IEEE operations)"],
        "assumptions": ["theorems hold for every structurally well-formed lookup table; that the table built with f64 arithmetic equals the one built exactly is checked at run time by the driver, not proved",
                        "accuracy in [0,1] and max_den <= 64 (the documented preconditions; callers are checked under C03/C16)"],
    },
    "C16": {
        "gen": [{"script": "gen_units_file.py"}],
        "trusted_base": COMMON_TB + [FLOAT_TB,
            "translators/gen_units_file.py (units.toml -> Lean value with tomllib; SI prefix ratios, FractionsConfig defaults and clamps scraped from src/convert)",
            "modelled, not verified: toml/serde deserialisation of units files (the harness sends the deserialised UnitsFile value), build.rs' quote/prettyplease code generation (tied by comparing Converter::bundled() with the model built from the generated units.toml value), hashbrown iteration order (sent to the model as it is), slice::sort_by (a stable sort on a total order), enum_map!, Arc, format!",
            "the harness reads the thresholds, the index and the fraction settings of a Converter from its derived Debug rendering (they are not reachable through the public API)"],
        "assumptions": ["a build is: a new ConverterBuilder, add_units_file for each layer in order, the first error ends the build, then finish",
                        "ratios, differences and accuracies are finite and ratios positive (the property's premise); outside it the model is still compared with the code but the oracle does not judge",
                        "ordering clauses (best lists in non-decreasing ratio order) are proved over exact rationals"],
    },
}
