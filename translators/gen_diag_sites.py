#!/usr/bin/env python3
"""Scrape the call sites of the diagnostic sinks of /repo/src into CookModel/Gen/DiagSites.lean.

`SourceReport::error` / `SourceReport::warn` (src/error.rs) and `BlockParser::error` / `BlockParser::warn`
(src/parser/block_parser.rs) start with a debug assertion on the severity of the diagnostic they are handed
(`debug_assert_eq!(w.severity, Severity::Error)`, `debug_assert!(error.is_error())`, ...).  The Lean model fuses
builder and sink (`aerr` / `awarn` / `perr` / `pwarn` take the severity from the sink), so a diagnostic built by
`warning!` and sent through `.error(..)` — a panic in a debug build — has no value in the model (audit-C03, seed
C03-9).  This translator lists every `<receiver>.error(<arg>)` / `<receiver>.warn(<arg>)` method call of src/**/*.rs
(outside `#[cfg(test)]` modules) together with the severity of the builder of `<arg>` where that can be read off the
text:

  * `error!(..)` / `warning!(..)` (also `SourceDiag::error(..)` / `SourceDiag::warning(..)`), with any method chain
    behind it (`.hint(..)`, `.label(..)`, `.set_source(..)`);
  * a block `{ let mut e = error!(..); ..; e }` (its tail expression);
  * a local `let [mut] x = <one of these>` in the same function, the nearest one before the call;
  * a binding `Event::Error(x)` / `Event::Warning(x)` (the variant is what `BlockParser::error/warn` wrapped it in);
  * ONE level of helper: `helper(..)` where `fn helper` or a closure `let helper = |..| ..` of the same file (any file
    for a `fn`) builds with macros of one severity only.

Everything else (`Err(err)` of a callee, a method result, ..) goes to `diagSitesUndetermined` with the reason; those
sites are NOT covered by the theorem and are tied to the code by the correspondence run only (debug-build harness).

The severity each sink asserts is scraped too (`diagSinks`): the `Severity::X` of the `debug_assert_eq!` / the
`is_error()` / `is_warning()` of the `debug_assert!` in the body of the sink function.

A site is named by (file, enclosing fn, ordinal of the call in that fn) — not by line — so that unrelated edits do
not change the table.  `argv[1]` = the repo (default /repo), `argv[2]` = the output file.  Tolerant: when no sink
body or no call site can be found any more, the committed file is kept and `unreadable:diagSites` is printed.
The output is deterministic.
"""
import os, re, sys

REPO = sys.argv[1] if len(sys.argv) > 1 else "/repo"
HERE = os.path.dirname(os.path.dirname(os.path.abspath(__file__)))
OUT = sys.argv[2] if len(sys.argv) > 2 else os.path.join(HERE, "lean/CookModel/Gen/DiagSites.lean")

SEV = {"error": "error", "warning": "warning", "warn": "warning"}


def blank(src):
    """comments and the contents of string / char literals replaced by spaces (newlines kept): offsets are preserved"""
    out, i, n = list(src), 0, len(src)

    def wipe(a, b):
        for k in range(a, b):
            if out[k] != "\n":
                out[k] = " "
    while i < n:
        c = src[i]
        if src.startswith("//", i):
            j = src.find("\n", i)
            j = n if j < 0 else j
            wipe(i, j); i = j
        elif src.startswith("/*", i):
            depth, j = 1, i + 2
            while j < n and depth:
                if src.startswith("/*", j): depth += 1; j += 2
                elif src.startswith("*/", j): depth -= 1; j += 2
                else: j += 1
            wipe(i, j); i = j
        elif c == "r" and re.match(r'r#*"', src[i:i + 12]) and not (i and (src[i - 1].isalnum() or src[i - 1] == "_")):
            m = re.match(r'r(#*)"', src[i:])
            end = '"' + m.group(1)
            j = src.find(end, i + len(m.group(0)))
            j = n if j < 0 else j + len(end)
            wipe(i + len(m.group(0)), j - len(end)); i = j
        elif c == '"':
            j = i + 1
            while j < n and src[j] != '"':
                j += 2 if src[j] == "\\" else 1
            wipe(i + 1, j); i = j + 1
        elif c == "'":
            m = re.match(r"'(\\.[^']*|[^'\\])'", src[i:i + 14])
            if m:
                wipe(i + 1, i + len(m.group(0)) - 1); i += len(m.group(0))
            else:
                i += 1          # a lifetime
        else:
            i += 1
    return "".join(out)


OPEN, CLOSE = "([{", ")]}"


def match_close(s, i):
    """s[i] is an opening bracket: index of its closing one (or len(s))"""
    depth = 0
    for k in range(i, len(s)):
        if s[k] in OPEN: depth += 1
        elif s[k] in CLOSE:
            depth -= 1
            if depth == 0:
                return k
    return len(s)


def expr_end(s, i):
    """end of the expression that starts at s[i]: the first `;` or `,` at depth 0, or the bracket that closes the surrounding"""
    depth = 0
    for k in range(i, len(s)):
        if s[k] in OPEN: depth += 1
        elif s[k] in CLOSE:
            if depth == 0:
                return k
            depth -= 1
        elif s[k] in ";," and depth == 0:
            return k
    return len(s)


FN_RE = re.compile(r"\bfn\s+(\w+)\s*(?:<[^{;]*?>)?\s*\(")


def functions(s):
    """[(name, body_start, body_end)] of every fn with a body, nested ones included"""
    res = []
    for m in FN_RE.finditer(s):
        close = match_close(s, m.end() - 1)
        k = close + 1
        depth = 0
        while k < len(s) and not (s[k] in "{;" and depth == 0):      # return type / where clause
            if s[k] in "(<[": depth += 1
            elif s[k] in ")>]" and s[k - 1] != "-": depth -= 1
            k += 1
        if k < len(s) and s[k] == "{":
            res.append((m.group(1), k, match_close(s, k)))
    return res


FILES = {}      # relative path -> blanked text (test modules cut off)
FNS = {}        # relative path -> functions


def load():
    for root, _, names in sorted(os.walk(os.path.join(REPO, "src"))):
        for name in sorted(names):
            if name.endswith(".rs"):
                path = os.path.join(root, name)
                rel = os.path.relpath(path, REPO)
                s = blank(open(path, encoding="utf-8").read())
                m = re.search(r"#\[cfg\(test\)\]\s*(?:pub\s+)?mod\s+\w+\s*\{", s)
                if m:
                    s = s[:m.start()]
                FILES[rel] = s
                FNS[rel] = functions(s)


MACRO_RE = re.compile(r"(?:\$?crate::|\w+::)*(error|warning)\s*!\s*[(\[{]")
CTOR_RE = re.compile(r"(?:\w+::)*SourceDiag::(error|warning)\s*\(")
CALL_RE = re.compile(r"(?:self\s*\.\s*|Self::)?(\w+)\s*\(")
IDENT_RE = re.compile(r"(\w+)\s*(?:$|\.)")


def enclosing(rel, pos):
    best = None
    for (name, a, b) in FNS[rel]:
        if a < pos <= b and (best is None or a > best[1]):
            best = (name, a, b)
    return best


def macros_in(s):
    return {SEV[m.group(1)] for m in MACRO_RE.finditer(s)} | {SEV[m.group(1)] for m in CTOR_RE.finditer(s)}


def resolve(rel, expr, pos, helpers=1):
    """(severity, how) or (None, reason) for the expression text `expr` that ends before offset `pos` of file `rel`"""
    s = FILES[rel]
    e = expr.strip()
    e = re.sub(r"^(?:&\s*(?:mut\s+)?)+", "", e)
    if e.startswith("{"):
        inner = e[1:match_close(e, 0)]
        depth, last = 0, 0
        for k, ch in enumerate(inner):
            if ch in OPEN: depth += 1
            elif ch in CLOSE: depth -= 1
            elif ch == ";" and depth == 0: last = k + 1
        tail = inner[last:].strip()
        depth, cut = 0, 0                      # statements that end in `}` without `;` (`if c { .. }`) in front of the tail
        for k, ch in enumerate(tail):
            if ch in OPEN: depth += 1
            elif ch in CLOSE:
                depth -= 1
                if depth == 0 and ch == "}" and re.match(r"\s*\w+\s*$", tail[k + 1:]):
                    cut = k + 1
        tail = tail[cut:].strip()
        m = re.fullmatch(r"\w+", tail)
        if m:
            lets = list(re.finditer(r"\blet\s+(?:mut\s+)?" + tail + r"\b[^=;]*=(?!=)", inner[:last]))
            if lets:
                st = lets[-1].end()
                sev, how = resolve(rel, inner[st:expr_end(inner, st)], pos, helpers)
                return sev, "block tail `" + tail + "`: " + how
        sev, how = resolve(rel, tail, pos, helpers)
        return sev, "block tail: " + how
    m = MACRO_RE.match(e)
    if m:
        return SEV[m.group(1)], m.group(1) + "!"
    m = CTOR_RE.match(e)
    if m:
        return SEV[m.group(1)], "SourceDiag::" + m.group(1)
    m = re.fullmatch(r"(\w+)((?:\s*\.\s*\w+\s*\(.*)?)", e, re.S)
    if m and not re.match(r"\w+\s*\(", e):
        x = m.group(1)
        fn = enclosing(rel, pos)
        lo = fn[1] if fn else 0
        before = s[lo:pos]
        cands = []
        for mm in re.finditer(r"\blet\s+(?:mut\s+)?" + x + r"\b[^=;|]*=(?!=)", before):
            cands.append((mm.start(), "let", mm.end()))
        for mm in re.finditer(r"\bEvent::(Error|Warning)\s*\(\s*" + x + r"\s*\)", before):
            cands.append((mm.start(), "event", mm.group(1)))
        for mm in re.finditer(r"\b(Err|Ok|Some)\s*\(\s*" + x + r"\s*\)", before):
            cands.append((mm.start(), "other", mm.group(1)))
        if not cands:
            return None, f"`{x}`: no binding found in the enclosing fn"
        _, kind, data = max(cands)
        if kind == "event":
            return SEV[data.lower()], f"`{x}` bound by Event::{data}(..)"
        if kind == "other":
            return None, f"`{x}` bound by the pattern {data}(..) (the value of a callee)"
        st = lo + data
        sev, how = resolve(rel, s[st:expr_end(s, st)], st, helpers)
        return sev, f"let {x} = " + how
    m = CALL_RE.match(e)
    if m and helpers > 0:
        h = m.group(1)
        # a closure of the same function
        fn = enclosing(rel, pos)
        lo = fn[1] if fn else 0
        cl = list(re.finditer(r"\blet\s+(?:mut\s+)?" + h + r"\s*=\s*(?:move\s+)?\|[^|]*\|", s[lo:pos]))
        if cl:
            st = lo + cl[-1].end()
            body = s[st:expr_end(s, st)]
            sevs = macros_in(body)
            if len(sevs) == 1:
                return sevs.pop(), f"closure {h}"
            return None, f"closure {h}: builds {sorted(sevs)}"
        found = [(r, a, b) for r in ([rel] + [r for r in FILES if r != rel]) for (name, a, b) in FNS[r] if name == h]
        if found:
            r, a, b = found[0]
            sevs = macros_in(FILES[r][a:b])
            if len(sevs) == 1:
                return sevs.pop(), f"helper fn {h}"
            return None, f"helper fn {h}: builds {sorted(sevs)}"
        return None, f"call of `{h}`: no such fn or closure found"
    return None, "expression not understood"


SITE_RE = re.compile(r"([A-Za-z_][\w]*)\s*\.\s*(error|warn)\s*\(")


def sites():
    det, und = [], []
    for rel in FILES:
        s = FILES[rel]
        counter = {}
        for m in SITE_RE.finditer(s):
            recv = m.group(1)
            if s[:m.start()].rstrip().endswith("::"):
                continue
            op = m.end() - 1
            cl = match_close(s, op)
            arg = s[op + 1:cl]
            if not arg.strip():
                continue
            fn = enclosing(rel, m.start())
            fname = fn[0] if fn else "<top>"
            k = counter.get(fname, 0)
            counter[fname] = k + 1
            sev, how = resolve(rel, arg, m.start())
            row = (rel, fname, k, recv, m.group(2))
            if sev is None:
                und.append(row + (how,))
            else:
                det.append(row + (sev, how))
    return det, und


def sinks():
    """[(file, fn, asserted severity)] for the sink functions: fn error / fn warn taking a SourceDiag"""
    res = []
    for rel in FILES:
        s = FILES[rel]
        for m in re.finditer(r"\bfn\s+(error|warn)\s*\(\s*&mut\s+self\s*,\s*\w+\s*:\s*SourceDiag\s*\)", s):
            a = s.find("{", m.end())
            if a < 0:
                continue
            body = s[a:match_close(s, a)]
            found = set(re.findall(r"debug_assert\w*!\s*\([^;]*?Severity::(Error|Warning)", body))
            found |= {x.capitalize() for x in re.findall(r"debug_assert\w*!\s*\([^;]*?\.is_(error|warning)\s*\(", body)}
            if len(found) == 1:
                res.append((rel, m.group(1), found.pop().lower()))
            else:
                res.append((rel, m.group(1), None))
    return res


def lstr(x):
    return '"' + x.replace("\\", "\\\\").replace('"', '\\"') + '"'


def main():
    ok = True
    try:
        load()
        det, und = sites()
        snk = sinks()
    except OSError:
        ok = False
    if ok and (not det or not snk or any(x[2] is None for x in snk) or {x[1] for x in snk} != {"error", "warn"}):
        ok = False
    if not ok:
        if not os.path.exists(OUT):
            print("gen_diag_sites: cannot read the sinks / call sites and there is no committed value", file=sys.stderr)
            sys.exit(3)
        print("unchanged")
        print("unreadable:diagSites")
        return
    out = ["/- GENERATED by translators/gen_diag_sites.py from src/**/*.rs. Do not edit. -/",
           "namespace Cook.Gen",
           "/-- severity of a diagnostic (`Severity::Error` / `Severity::Warning`, src/error.rs) -/",
           "inductive DiagSev | error | warning deriving DecidableEq, Repr",
           "/-- a sink function `fn error(&mut self, _: SourceDiag)` / `fn warn(..)` with the severity its debug assertion demands -/",
           "structure DiagSink where",
           "  file : String",
           "  fn : String",
           "  asserts : DiagSev",
           "  deriving DecidableEq, Repr",
           "/-- a method call `<recv>.error(<arg>)` / `<recv>.warn(<arg>)`: where it is (file, enclosing fn, ordinal of the call in that fn),",
           "    the method, the severity of what built `<arg>` and how that was read off the text -/",
           "structure DiagSite where",
           "  file : String",
           "  inFn : String",
           "  ordinal : Nat",
           "  recv : String",
           "  sink : String",
           "  builder : DiagSev",
           "  how : String",
           "  deriving DecidableEq, Repr",
           "/-- the sink functions of src (SourceReport, BlockParser) -/",
           "def diagSinks : List DiagSink := ["]
    out += [",\n".join(f"  ⟨{lstr(a)}, {lstr(b)}, .{c}⟩" for (a, b, c) in snk) + "]"]
    out += ["/-- every call site whose builder severity is determined by the text -/",
            "def diagSites : List DiagSite := ["]
    out += [",\n".join(f"  ⟨{lstr(r)}, {lstr(f)}, {k}, {lstr(rv)}, {lstr(sk)}, .{sev}, {lstr(how)}⟩"
                       for (r, f, k, rv, sk, sev, how) in det) + "]"]
    out += ["/-- call sites whose argument's builder cannot be read off the text (file, fn, ordinal, receiver, method, reason): NOT covered",
            "    by `C03_diag_sink_severity_sites`, tied to the code by the debug-build correspondence run only -/",
            "def diagSitesUndetermined : List (String × String × Nat × String × String × String) := ["]
    out += [",\n".join(f"  ({lstr(r)}, {lstr(f)}, {k}, {lstr(rv)}, {lstr(sk)}, {lstr(how)})" for (r, f, k, rv, sk, how) in und) + "]"]
    out += ["end Cook.Gen"]
    text = "\n".join(out) + "\n"
    try:
        old = open(OUT).read()
    except FileNotFoundError:
        old = None
    if old != text:
        open(OUT, "w").write(text)
        print("changed")
    else:
        print("unchanged")


main()
