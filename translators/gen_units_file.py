#!/usr/bin/env python3
"""C16: the shipped units.toml as a Lean `UnitsFile` value + the constants of the builder code.

  gen_units_file.py <repo>  ->  <verif>/lean/CookModel/Gen/UnitsFile.lean   (prints changed/unchanged)

Reads <repo>/units.toml with tomllib (numeric literals are kept as text, so every ratio becomes a
`Const` = exact rational + the f64 bit pattern a correctly rounding parser gives) and scrapes
  * the SI prefix ratios from `SIPrefix::ratio`            (src/convert/units_file.rs)
  * the defaults of `FractionsConfig` and the clamps of `define`  (src/convert/mod.rs, units_file.rs)
The hash maps of the file (`fractions.quantity`, `fractions.unit`) are written in file order.
"""
import os, re, struct, sys, tomllib
from fractions import Fraction

REPO = sys.argv[1] if len(sys.argv) > 1 else "/repo"
ROOT = os.path.dirname(os.path.dirname(os.path.abspath(__file__)))
OUT = sys.argv[2] if len(sys.argv) > 2 else os.path.join(ROOT, "lean/CookModel/Gen/UnitsFile.lean")


def fail(msg):
    print(f"gen_units_file: {msg}", file=sys.stderr)
    sys.exit(3)


class Lit:
    """a TOML float literal, kept as text"""
    def __init__(self, s):
        self.s = s.replace("_", "")


def f64bits(x):
    return struct.unpack(">Q", struct.pack(">d", x))[0]


def const_of(fr, fl):
    r = f"{fr.numerator}" if fr.denominator == 1 else f"{fr.numerator}/{fr.denominator}"
    if fr < 0:
        r = f"({r})"
    return f"⟨{r}, 0x{f64bits(fl):016x}⟩"


def const_lit(s):
    s = s.replace("_", "")
    return const_of(Fraction(s), float(s))


def const_f32(s):
    """an f32 literal, as the value it has after widening to f64"""
    f = struct.unpack(">f", struct.pack(">f", float(s.replace("_", ""))))[0]
    return const_of(Fraction(f), f)


def num(v, what):
    if isinstance(v, Lit):
        return "(Arith.const " + const_lit(v.s) + ")"
    if isinstance(v, bool) or not isinstance(v, int):
        fail(f"{what}: not a number: {v!r}")
    return "(Arith.const " + const_of(Fraction(v), float(v)) + ")"


def ch(c):
    n = ord(c)
    if c == "'":
        return "'\\''"
    if c == "\\":
        return "'\\\\'"
    if 0x20 <= n < 0x7f:
        return f"'{c}'"
    return f"(Char.ofNat {n})"


def text(s):
    if not isinstance(s, str):
        fail(f"not a string: {s!r}")
    return "[" + ", ".join(ch(c) for c in s) + "]"


def texts(v):
    if not isinstance(v, list):
        fail(f"not a list: {v!r}")
    return "[" + ", ".join(text(s) for s in v) + "]"


def enum(v, allowed, what):
    if v not in allowed:
        fail(f"{what}: unexpected value {v!r}")
    return "." + v


SIP = ["kilo", "hecto", "deca", "deci", "centi", "milli"]
PQS = ["volume", "mass", "length", "temperature", "time"]


FLT = r"([0-9][0-9_]*(?:\.[0-9_]*)?(?:[eE][+-]?[0-9_]+)?)(?:_?f(?:32|64))?"
INT = r"(u32::MAX|0x[0-9a-fA-F_]+|[0-9][0-9_]*)(?:_?u(?:8|16|32|64|size))?"


def parse_int(tok):
    return 4294967295 if tok == "u32::MAX" else int(tok.replace("_", ""), 0)


def src_unreadable(what):
    """a constant of the Rust source is not spelled in a way this translator understands: not a finding about the
    code; keep the committed output (the correspondence run is then the only tie) and say so"""
    if os.path.exists(OUT):
        print("unchanged unreadable:" + re.sub(r"\s+", "_", what))
        sys.exit(0)
    fail(f"cannot find {what} and there is no committed output")


def read_src(path, what):
    try:
        src = open(os.path.join(REPO, path)).read()
    except OSError:
        src_unreadable(what)
    return re.sub(r"//[^\n]*", "", re.sub(r"/\*.*?\*/", "", src, flags=re.S))


def grab(path, pattern, what):
    m = re.search(pattern, read_src(path, what), re.S)
    if not m:
        src_unreadable(what)
    return m.group(1)


def prefix_map(t):
    if set(t.keys()) != set(SIP):
        fail(f"si prefix table must have exactly the keys {SIP}")   # EnumMap deserialisation needs all of them
    return "(fun p => match p with " + " ".join(f"| .{p} => {texts(t[p])}" for p in SIP) + ")"


def opt(v, f):
    return "none" if v is None else f"(some {f(v)})"


def frac_wrapper(v):
    if isinstance(v, bool):
        return f"(.toggle {'true' if v else 'false'})"
    if not isinstance(v, dict) or set(v) - {"enabled", "accuracy", "max_denominator", "max_whole"}:
        fail(f"bad fractions value {v!r}")
    en = opt(v.get("enabled"), lambda b: "true" if b else "false")
    acc = v.get("accuracy")
    if acc is not None:
        s = acc.s if isinstance(acc, Lit) else str(acc)
        acc = "(some (Arith.const " + const_f32(s) + "))"
    else:
        acc = "none"
    md = opt(v.get("max_denominator"), str)
    mw = opt(v.get("max_whole"), str)
    return f"(.custom ⟨{en}, {acc}, {md}, {mw}⟩)"


def unit_entry(u):
    if set(u) - {"names", "name", "symbols", "symbol", "aliases", "alias", "ratio", "difference", "expand_si"}:
        fail(f"unknown key in unit entry {u!r}")
    names = u.get("names", u.get("name"))
    symbols = u.get("symbols", u.get("symbol"))
    aliases = u.get("aliases", u.get("alias", []))
    if names is None or symbols is None or "ratio" not in u:
        fail(f"unit entry without names/symbols/ratio: {u!r}")
    diff = u.get("difference", 0)
    ex = "true" if u.get("expand_si", False) else "false"
    return f"⟨{texts(names)}, {texts(symbols)}, {texts(aliases)}, {num(u['ratio'], 'ratio')}, {num(diff, 'difference')}, {ex}⟩"


def entries(v):
    return "[\n      " + ",\n      ".join(unit_entry(u) for u in v) + "]"


def main():
    try:
        data = tomllib.load(open(os.path.join(REPO, "units.toml"), "rb"), parse_float=Lit)
    except Exception as e:  # noqa: BLE001
        fail(f"cannot read units.toml: {e}")
    if set(data) - {"default_system", "si", "fractions", "extend", "quantity"}:
        fail("unknown top-level key in units.toml")
    if "extend" in data:
        fail("units.toml has an [extend] block (build.rs does not support that either)")

    uf = "src/convert/units_file.rs"
    md = "src/convert/mod.rs"
    out = ["import CookModel.Side.BuilderTypes",
           "/- GENERATED by translators/gen_units_file.py from units.toml and src/convert. Do not edit. -/",
           "namespace Cook.Gen", "open Cook Cook.Bld", ""]
    for p in SIP:
        lit = grab(uf, r"SIPrefix::" + p.capitalize() + r"\s*=>\s*" + FLT + r"\s*,", f"ratio of SI prefix {p}")
        out.append(f"def SI_RATIO_{p.upper()} : Const := {const_lit(lit)}")
    dflt = grab(md, r"impl Default for FractionsConfig \{(.*?)\n\}", "FractionsConfig::default")
    m = re.search(r"enabled:\s*(true|false),", dflt) or src_unreadable("FractionsConfig::default enabled")
    out.append(f"def FRAC_DEFAULT_ENABLED : Bool := {m.group(1)}")
    m = re.search(r"accuracy:\s*" + FLT + r",", dflt) or src_unreadable("FractionsConfig::default accuracy")
    out.append(f"def FRAC_DEFAULT_ACCURACY : Const := {const_f32(m.group(1))}")
    m = re.search(r"max_denominator:\s*" + INT + r",", dflt) or src_unreadable("FractionsConfig::default max_denominator")
    out.append(f"def FRAC_DEFAULT_MAXDEN : Nat := {parse_int(m.group(1))}")
    m = re.search(r"max_whole:\s*" + INT + r",", dflt) or src_unreadable("FractionsConfig::default max_whole")
    out.append(f"def FRAC_DEFAULT_MAXWHOLE : Nat := {parse_int(m.group(1))}")
    m = re.search(r"unwrap_or\(d\.accuracy\)\s*\.clamp\(\s*" + FLT + r"\s*,\s*" + FLT + r"\s*\)", read_src(uf, "accuracy clamp")) \
        or src_unreadable("accuracy clamp")
    out.append(f"def FRAC_ACC_LO : Const := {const_f32(m.group(1))}")
    out.append(f"def FRAC_ACC_HI : Const := {const_f32(m.group(2))}")
    m = re.search(r"unwrap_or\(d\.max_denominator\)\s*\.clamp\(\s*" + INT + r"\s*,\s*" + INT + r"\s*\)", read_src(uf, "max_denominator clamp")) \
        or src_unreadable("max_denominator clamp")
    out.append(f"def FRAC_DEN_LO : Nat := {parse_int(m.group(1))}")
    out.append(f"def FRAC_DEN_HI : Nat := {parse_int(m.group(2))}")
    out.append("")

    ds = opt(data.get("default_system"), lambda v: enum(v, ["metric", "imperial"], "default_system"))
    si = data.get("si")
    if si is not None:
        if set(si) - {"prefixes", "symbol_prefixes", "precedence"}:
            fail("unknown key in [si]")
        si_s = ("(some { prefixes := " + opt(si.get("prefixes"), prefix_map) + ", symbolPrefixes := "
                + opt(si.get("symbol_prefixes"), prefix_map) + ", precedence := "
                + enum(si.get("precedence", "before"), ["before", "after", "override"], "si.precedence") + " })")
    else:
        si_s = "none"
    fr = data.get("fractions")
    if fr is not None:
        if set(fr) - {"all", "metric", "imperial", "quantity", "unit"}:
            fail("unknown key in [fractions]")
        q = "[" + ", ".join(f"({enum(k, PQS, 'fractions.quantity')}, {frac_wrapper(v)})" for k, v in fr.get("quantity", {}).items()) + "]"
        u = "[" + ", ".join(f"({text(k)}, {frac_wrapper(v)})" for k, v in fr.get("unit", {}).items()) + "]"
        fr_s = ("(some { all := " + opt(fr.get("all"), frac_wrapper) + ", metric := " + opt(fr.get("metric"), frac_wrapper)
                + ", imperial := " + opt(fr.get("imperial"), frac_wrapper) + ", quantity := " + q + ", unit := " + u + " })")
    else:
        fr_s = "none"
    groups = []
    for g in data.get("quantity", []):
        if set(g) - {"quantity", "best", "units"}:
            fail("unknown key in [[quantity]]")
        qn = enum(g.get("quantity"), PQS, "quantity")
        b = g.get("best")
        if b is None:
            best = "none"
        elif isinstance(b, list):
            best = f"(some (.unified {texts(b)}))"
        elif isinstance(b, dict) and set(b) == {"metric", "imperial"}:
            best = f"(some (.bySystem {texts(b['metric'])} {texts(b['imperial'])}))"
        else:
            fail(f"bad best units {b!r}")
        un = g.get("units")
        if un is None:
            units = "none"
        elif isinstance(un, list):
            units = f"(some (.unified {entries(un)}))"
        elif isinstance(un, dict) and not (set(un) - {"metric", "imperial", "unspecified"}):
            units = ("(some (.bySystem " + entries(un.get("metric", [])) + "\n     " + entries(un.get("imperial", []))
                     + "\n     " + entries(un.get("unspecified", [])) + "))")
        else:
            fail(f"bad quantity units {un!r}")
        groups.append("{ quantity := " + qn + ", best := " + best + ", units := " + units + " }")
    out.append("/-- units.toml -/")
    out.append("def shippedFile {α : Type} [Arith α] : UnitsFile α where")
    out.append(f"  defaultSystem := {ds}")
    out.append(f"  si := {si_s}")
    out.append(f"  fractions := {fr_s}")
    out.append("  extend := none")
    out.append("  quantity := [\n  " + ",\n  ".join(groups) + "]")
    out.append("")
    out.append("end Cook.Gen")
    txt = "\n".join(out) + "\n"
    try:
        old = open(OUT).read()
    except FileNotFoundError:
        old = None
    if old != txt:
        os.makedirs(os.path.dirname(OUT), exist_ok=True)
        open(OUT, "w").write(txt)
        print("changed")
    else:
        print("unchanged")


main()
