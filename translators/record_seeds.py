#!/usr/bin/env python3
"""Record evaluated seeded changes under /verif/seeded/<prop>-<n>/.

usage: record_seeds.py <mut_dir> <offset> <initially_missed comma list like C01-1,C02-1> [round label]
  <mut_dir>/<prop>-out/{patch_k.diff, demo_k.rs|demo_k.diff, meta_k.md}   the sub-agent's deliverables
  <mut_dir>/eval_<prop>_<k>.txt                                            output of translators/seed_eval.sh (final evaluation)
Seed k of the directory becomes seeded/<prop>-<k+offset>.
"""
import json, os, re, shutil, sys

mut, off, missed = sys.argv[1], int(sys.argv[2]), set(filter(None, sys.argv[3].split(",")))
label = sys.argv[4] if len(sys.argv) > 4 else "round 2"
root = os.path.dirname(os.path.dirname(os.path.abspath(__file__)))
rows = []
for d in sorted(os.listdir(mut)):
    m = re.fullmatch(r"(C\d\d)-out", d)
    if not m:
        continue
    prop = m.group(1)
    for k in (1, 2):
        src = os.path.join(mut, d)
        patch = os.path.join(src, f"patch_{k}.diff")
        ev = os.path.join(mut, f"eval_{prop}_{k}.txt")
        if not os.path.exists(patch) or not os.path.exists(ev):
            print(f"skip {prop}-{k}: missing patch or evaluation")
            continue
        text = open(ev).read()
        demo_before = re.search(r"--- demo on unchanged code\n(.*)", text)
        demo_after = re.search(r"--- demo with the change\n(.*)", text)
        suite = re.search(r"passed=(\d+) failed=(\d+)", text)
        viol = re.findall(r"^VIOLATION .*$", text, re.M)
        concrete = any("no-failing-input-found" not in v for v in viol)
        sid = f"{prop}-{k + off}"
        out = os.path.join(root, "seeded", sid)
        os.makedirs(out, exist_ok=True)
        shutil.copy(patch, os.path.join(out, "patch.diff"))
        for name, dst in ((f"demo_{k}.rs", "demo.rs"), (f"demo_{k}.diff", "demo.diff"), (f"meta_{k}.md", "author_notes.md")):
            if os.path.exists(os.path.join(src, name)):
                shutil.copy(os.path.join(src, name), os.path.join(out, dst))
        was_missed = f"{prop}-{k}" in missed
        if viol:
            outcome = ("caught after strengthening (missed by the check as it was when the change was written; see DESIGN.md §11.6): " if was_missed else "caught: ") + \
                      ("the check reports VIOLATION with a concrete failing input found on the implementation" if concrete else "the check reports VIOLATION (correspondence/proof obligation broken) ending in no-failing-input-found")
        else:
            outcome = "MISSED: the check prints OK on the changed tree"
        meta = {
            "property": prop, "id": sid, "round": label,
            "source": "fresh sub-agent that was given only the property text, the list of source locations already used by earlier seeds and a scratch git worktree of /repo; nothing from /verif",
            "what_it_needs_to_manifest": "see author_notes.md",
            "confirmed": f"translators/seed_eval.sh in a scratch worktree: demo on unchanged /repo HEAD: {demo_before.group(1).strip() if demo_before else '?'}; with patch.diff: {demo_after.group(1).strip() if demo_after else '?'}; existing suite with the patch: passed={suite.group(1) if suite else '?'} failed={suite.group(2) if suite else '?'}",
            "check_run": f"VERIF_REPO=<scratch worktree with patch.diff applied> ./check {prop} quick (own cargo target dir, isolated verif checkout)",
            "violation_lines": len(viol), "concrete_failing_input": concrete, "initially_missed": was_missed, "outcome": outcome,
        }
        json.dump(meta, open(os.path.join(out, "meta.json"), "w"), indent=1)
        rows.append((sid, outcome))
for sid, o in rows:
    print(sid, "|", o[:90])
