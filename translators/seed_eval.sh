#!/bin/bash
# usage: seed_eval.sh <prop> <k> [other props to run for cross-talk]
# env: MUT_DIR (default /tmp/mut), SEED_WT (scratch worktree, default /tmp/seedwt), VERIF_DIR (verif checkout to run)
# Confirms a seeded change (from $MUT_DIR/<prop>-out) in a scratch worktree and runs ./check against it.
P=$1; K=$2; shift 2
SRC=${MUT_DIR:-/tmp/mut}/$P-out
WT=${SEED_WT:-/tmp/seedwt}
export CARGO_NET_OFFLINE=true
if [ ! -d $WT ]; then git -C /repo worktree add -q --detach $WT HEAD; else git -C $WT checkout -q --detach $(git -C /repo rev-parse HEAD) 2>/dev/null; git -C $WT checkout -q -- . ; git -C $WT clean -fdq tests/; fi
VDIR=${VERIF_DIR:-/verif}
cd $WT
if [ -f $SRC/demo_$K.rs ]; then
  cp $SRC/demo_$K.rs $WT/tests/seed_demo.rs
  DEMO="cargo test --offline --test seed_demo"
else
  git apply $SRC/demo_$K.diff   # demo delivered as added tests (bindings crate)
  DEMO="cargo test --offline -p cooklang-bindings"
fi
echo "--- demo on unchanged code"
$DEMO 2>&1 | grep -E "^test result|error\[" | head -3
if ! git apply --check $SRC/patch_$K.diff 2>/dev/null; then echo "PATCH DOES NOT APPLY on current HEAD"; git apply --3way $SRC/patch_$K.diff 2>&1 | tail -2; else git apply $SRC/patch_$K.diff; fi
echo "--- demo with the change"
$DEMO 2>&1 | grep -E "^test result|error\[" | head -3
rm -f tests/seed_demo.rs
if [ -f $SRC/demo_$K.diff ]; then git apply -R $SRC/demo_$K.diff; fi
echo "--- existing suite with the change"
cargo test --workspace --no-fail-fast --offline 2>&1 | grep -E "^test result" | awk '{p+=$4; f+=$6} END {print "passed="p" failed="f}'
cd $VDIR
for Q in $P "$@"; do
  echo "--- ./check $Q quick against the changed tree"
  VERIF_REPO=$WT ./check $Q quick 2>&1 | tail -4
done
git -C $WT checkout -q -- .
