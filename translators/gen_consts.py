#!/usr/bin/env python3
"""Scrape numeric constants from /repo sources into CookModel/Gen/Consts.lean.

Every constant becomes a `Const` (exact rational + the f64 bit pattern rustc gives the
same literal; Python's float() is correctly rounded like Rust's parser) or a Nat list.
The output is deterministic; the caller compares it with the committed copy.
"""
import os, re, struct, sys
from fractions import Fraction

REPO = sys.argv[1] if len(sys.argv) > 1 else "/repo"
HERE = os.path.dirname(os.path.dirname(os.path.abspath(__file__)))   # the verif checkout this script lives in
OUT = sys.argv[2] if len(sys.argv) > 2 else os.path.join(HERE, "lean/CookModel/Gen/Consts.lean")


LIT = r"([0-9][0-9_]*(?:\.[0-9_]*)?(?:[eE][+-]?[0-9_]+)?)(?:_?f(?:32|64))?"
unreadable = []


def previous():
    """the committed values, used for an item the scraper cannot find any more (the correspondence run is then the
    only tie for that item; ./check records it in the evidence)"""
    vals = {}
    try:
        for line in open(OUT):
            m = re.match(r"def (\w+) : (.+?) := (.+)$", line.rstrip("\n"))
            if m:
                vals[m.group(1)] = (m.group(2), m.group(3))
    except FileNotFoundError:
        pass
    return vals


PREV = previous()


def const(lit):
    lit = lit.replace("_", "")
    fr = Fraction(lit)
    bits = struct.unpack(">Q", struct.pack(">d", float(lit)))[0]
    r = f"{fr.numerator}" if fr.denominator == 1 else f"{fr.numerator}/{fr.denominator}"
    return f"⟨{r}, 0x{bits:016x}⟩"


def strip_comments(src):
    src = re.sub(r"/\*.*?\*/", "", src, flags=re.S)
    return re.sub(r"//[^\n]*", "", src)


def grab(path, patterns, what):
    try:
        src = strip_comments(open(f"{REPO}/{path}").read())
    except OSError:
        return None
    for pattern in patterns:
        ms = re.findall(pattern, src, re.S)
        ms = [m if isinstance(m, str) else m[0] for m in ms]
        if len(set(ms)) == 1:
            return ms[0]
    return None


items = []


def add(name, ty, val):
    if val is None:
        if name in PREV:
            unreadable.append(name)
            items.append((name, PREV[name][0], PREV[name][1]))
        else:
            print(f"gen_consts: cannot find {name} and there is no committed value", file=sys.stderr)
            sys.exit(3)
    else:
        items.append((name, ty, val))


def cmap(f, x):
    return None if x is None else f(x)


q = "src/quantity.rs"
# the scale of the fixed-point fraction table: `const FIX_RATIO: f64 = 1e4;` (whatever it is called: the only f64 const of the file)
add("FIX_RATIO", "Const", cmap(const, grab(q, [r"const FIX_RATIO\s*:\s*f64\s*=\s*" + LIT + r"\s*;", r"const \w+\s*:\s*f64\s*=\s*" + LIT + r"\s*;"], "FIX_RATIO")))
add("APPROX_EPS", "Const", cmap(const, grab(q, [r"if decimal\s*<\s*" + LIT + r"\s*\{", r"decimal\s*<\s*" + LIT], "the integer tolerance of new_approx")))
den = grab(q, [r"const DENOMS\s*:\s*&(?:'static\s+)?\[u8\]\s*=\s*&\[([0-9,_\s]+)\]\s*;", r"const \w*DENOM\w*\s*:\s*&(?:'static\s+)?\[u8\]\s*=\s*&\[([0-9,_\s]+)\]\s*;", r"const \w*DENOM\w*\s*:\s*\[u8;\s*\d+\]\s*=\s*\[([0-9,_\s]+)\]\s*;"], "DENOMS")
add("DENOMS", "List Nat", cmap(lambda d: "[" + ", ".join(str(int(x.strip().replace("_", ""))) for x in d.split(",") if x.strip()) + "]", den))
c = "src/convert/mod.rs"
add("BEST_EPS", "Const", cmap(const, grab(c, [r"norm\s*[<>]=?\s*\(\s*th\s*-\s*" + LIT + r"\s*\)", r"\(\s*th\s*-\s*" + LIT + r"\s*\)"], "best_unit threshold slack")))


def flag_value(src, name, known):
    """`const NAME = <term> (| <term>)*;` with terms `1 << n`, hex/binary/decimal literals, `Self::X.bits()`"""
    m = re.search(r"const " + name + r"\s*=\s*([^;]+);", src)
    if not m:
        return None
    v = 0
    for term in m.group(1).split("|"):
        t = term.strip().replace("_", "")
        mm = re.fullmatch(r"1\s*<<\s*(\d+)", t)
        if mm:
            v |= 1 << int(mm.group(1)); continue
        mm = re.fullmatch(r"(0x[0-9a-fA-F]+|0b[01]+|\d+)(?:u\d+)?", t)
        if mm:
            v |= int(mm.group(1), 0); continue
        mm = re.fullmatch(r"Self::(\w+)\.bits\(\)", term.strip())
        if mm and mm.group(1) in known:
            v |= known[mm.group(1)]; continue
        return None
    return v


# extension flag values (src/lib.rs bitflags)
try:
    lib = strip_comments(open(f"{REPO}/src/lib.rs").read())
except OSError:
    lib = ""
ext_vals = {}
for name in ["COMPONENT_MODIFIERS", "COMPONENT_ALIAS", "ADVANCED_UNITS", "MODES", "INLINE_QUANTITIES",
             "RANGE_VALUES", "TIMER_REQUIRES_TIME", "INTERMEDIATE_PREPARATIONS"]:
    v = flag_value(lib, name, ext_vals)
    if v is not None:
        ext_vals[name] = v
    add("EXT_" + name, "Nat", cmap(str, v))
# modifier flag values (src/parser/model.rs)
try:
    pm = strip_comments(open(f"{REPO}/src/parser/model.rs").read())
except OSError:
    pm = ""
for name in ["RECIPE", "REF", "HIDDEN", "OPT", "NEW"]:
    add("MOD_" + name, "Nat", cmap(str, flag_value(pm, name, {})))

out = ["import CookModel.Basic.Arith",
       "/- GENERATED by /verif/translators/gen_consts.py from /repo sources. Do not edit. -/",
       "namespace Cook.Gen"]
for name, ty, val in items:
    out.append(f"def {name} : {ty} := {val}")
out.append("end Cook.Gen")
text = "\n".join(out) + "\n"
try:
    old = open(OUT).read()
except FileNotFoundError:
    old = None
if old != text:
    open(OUT, "w").write(text)
    print("changed")
else:
    print("unchanged")
for name in unreadable:
    print(f"unreadable:{name}")
