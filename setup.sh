#!/bin/sh
# Build the framework from files on disk only (offline).
set -e
cd "$(dirname "$0")"
export CARGO_NET_OFFLINE=true
(cd lean && lake build driver CookModel 2>&1 | tail -5)
python3 translators/prep_bindings.py "${VERIF_REPO:-/repo}" "$PWD/harness"   # manifest of the optional `ffi` dependency
(cd harness && cargo build --offline 2>&1 | tail -3)
echo setup-done
